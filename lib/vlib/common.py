"""Shared plumbing: paths, scratch copies of /repo, evidence files, findings."""
import hashlib
import json
import os
import shutil
import subprocess
import sys
import time

VERIF = os.path.dirname(os.path.dirname(os.path.dirname(os.path.abspath(__file__))))
REPO = os.environ.get("VERIF_REPO", "/repo")
WORK_ROOT = os.environ.get("VERIF_WORK", "/var/tmp/verif-work")
EVIDENCE_DIR = os.environ.get("VERIF_EVIDENCE_DIR") or os.path.join(VERIF, "evidence")
REPLAY_DIR = os.environ.get("VERIF_REPLAY_DIR") or os.path.join(VERIF, "replays")
FINDINGS = os.path.join(VERIF, "known_findings.json")

EXIT_OK, EXIT_VIOLATION, EXIT_UNDECIDED = 0, 1, 2


def log(*a):
    print(*a, flush=True)


def sha256(text: str) -> str:
    return hashlib.sha256(text.encode()).hexdigest()


def tool_env():
    env = dict(os.environ)
    env["CARGO_NET_OFFLINE"] = "true"
    env.setdefault("CARGO_TERM_COLOR", "never")
    # do not let an outer RUSTFLAGS / toolchain override leak into kani / verus
    for k in ("RUSTFLAGS", "RUSTUP_TOOLCHAIN", "CARGO_TARGET_DIR", "RUSTC_WRAPPER"):
        env.pop(k, None)
    return env


def scratch_copy(tag: str) -> str:
    """rsync the *current working tree* of /repo (no target/, no .git/) into a
    fresh scratch directory outside /repo and /verif.  Returns its path."""
    d = os.path.join(WORK_ROOT, f"{tag}-{os.getpid()}")
    if os.path.exists(d):
        shutil.rmtree(d)
    os.makedirs(d)
    dst = os.path.join(d, "repo")
    subprocess.run(
        ["rsync", "-a", "--exclude", "/target", "--exclude", "/.git", "--exclude", "/book", REPO + "/", dst + "/"],
        check=True,
    )
    return d


def copy_tree(src: str, dst: str):
    os.makedirs(dst, exist_ok=True)
    subprocess.run(["rsync", "-a", "--exclude", "/target", src + "/", dst + "/"], check=True)


def remove_scratch(d: str):
    if os.environ.get("VERIF_KEEP") == "1":
        log(f"[keep] scratch left at {d}")
        return
    shutil.rmtree(d, ignore_errors=True)
    try:
        os.rmdir(WORK_ROOT)
    except OSError:
        pass


def load_findings():
    if not os.path.exists(FINDINGS):
        return {"known": [], "fixed": []}
    with open(FINDINGS) as f:
        return json.load(f)


def write_evidence(pid: str, ev: dict):
    os.makedirs(EVIDENCE_DIR, exist_ok=True)
    path = os.path.join(EVIDENCE_DIR, f"{pid}.json")
    tmp = path + ".tmp"
    with open(tmp, "w") as f:
        json.dump(ev, f, indent=1, sort_keys=False)
        f.write("\n")
    os.replace(tmp, path)
    return path


def run(cmd, cwd=None, env=None, timeout=None, stdin=None):
    """Run a command, return (rc, stdout, stderr, wall_s, timed_out)."""
    import signal
    t0 = time.time()
    p = subprocess.Popen(
        cmd, cwd=cwd, env=env or tool_env(), stdin=subprocess.PIPE if stdin is not None else subprocess.DEVNULL,
        stdout=subprocess.PIPE, stderr=subprocess.PIPE, text=True, errors="replace",
        start_new_session=True,
    )
    try:
        out, err = p.communicate(input=stdin, timeout=timeout)
        return p.returncode, out, err, time.time() - t0, False
    except subprocess.TimeoutExpired:
        try:
            os.killpg(p.pid, signal.SIGKILL)
        except ProcessLookupError:
            pass
        out, err = p.communicate()
        return -9, out or "", err or "", time.time() - t0, True
