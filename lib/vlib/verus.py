"""Verus back end: mechanical verbatim extraction of real functions / type
definitions from the current tree into a single file built from a unit
template, run of `verus`, and mapping of refuted obligations back to /repo.

Template directives (one per line, in /verif/verus/<unit>.rs):

  //@TYPE file=<rel> kind=enum|struct name=<Name> [attrs="#[...]"] [derive="Clone, Copy"]
  //@FN   file=<rel> fn=<name> [within="<regex on impl header>"] [nth=N] contract=<label> [vis=drop]
  //@CONTRACT <label>
  ...requires/ensures text inserted verbatim between signature and body...
  //@END

Mechanical edits applied to extracted text (and nothing else; all are logged):
  D1 doc comments and a fixed list of attributes are dropped
     (#[instrument..], #[tracing::instrument..], #[must_use], #[inline..], #[allow(..)], #[derive(..)])
  D2 statements that consist solely of a tracing macro invocation
     (debug!/trace!/info!/warn!/debug_span!/.. and `let _x = debug_span!(..)..;`) are dropped
  D3 `pub(super)` / `pub(in ..)` visibility qualifiers become `pub(crate)` (single flat module)
  D4 (opt-in, `refpat=deref` on a //@FN line; this Verus rejects reference patterns) in the FIRST `match (e1, .., en) {`
     of the function whose arms use reference patterns `(&P1, .., &Pn)`, every `&` that opens a tuple component of an
     arm pattern is removed and the scrutinee becomes `(*e1, .., *en)`.  Matching `&P` against a reference is by
     definition matching `P` against the referent, and rustc only accepts by-value bindings under `&P` for `Copy`
     data, so the rewritten match selects the same arm and binds the same values; a component WITHOUT `&` is only
     accepted when it binds nothing (`_`, a unit variant, `V(_)`, `V(..)`), otherwise the unit is UNDECIDED.
  I5 (opt-in, `closures=<label>[,<label>..]` on a //@FN line) closure annotation in place: the k-th closure that is
     the first argument of a call, `f(|x| <expr>)`, becomes `f(<header from the template> { <expr> })`, where the
     header restates the SAME parameter names with their types, names the result and gives the closure's `ensures`
     (Verus infers no specification for a closure).  The closure's body text is untouched; a closure whose parameter
     names differ from the template's, or a different number of such closures, makes the unit UNDECIDED.
  D5 (opt-in, `anonparams=name`) parameters written `_: T` in the signature (the verus! macro wants identifiers) are
     named `_p0`, `_p1`, ..; the body cannot mention them, so nothing else changes
  I1 the unit's contract block is inserted between signature and body
  I2 the result type `-> T` is rewritten to `-> (r: T)` so the contract can name it
  I3 loop invariants (`loopinv=` labels) are inserted between a loop header and its body;
     `fnattrs=` prepends verifier attributes (e.g. exec_allows_no_decreases_clause)
"""
import json
import os
import re
import shlex

from . import rsrc
from .common import VERIF, log, run, tool_env, sha256

VERUS_DIR = os.path.join(VERIF, "verus")

REFUTATION_MSGS = (
    "postcondition not satisfied",
    "precondition not satisfied",
    "assertion failed",
    "invariant not satisfied",
    "possible arithmetic underflow/overflow",
    "possible division by zero",
    "possible bit shift underflow/overflow",
    "decreases not satisfied",
    "could not show termination",
    "unreachable code reached",
    "failed this postcondition",
    "possible out-of-bounds",
    "unable to prove post-condition of closure",
)

DROP_ATTR = re.compile(r"^\s*#\[(?:tracing::)?(?:instrument|must_use|inline|allow|derive|doc|cfg_attr\(kani)\b")
TRACE_MACROS = r"(?:tracing::)?(?:debug|trace|info|warn|error|debug_span|trace_span|info_span|debug_heading)"


# `#[derive(Clone, PartialEq)]` is dropped from extracted types; its assumed
# meaning (clone returns an equal value, `==` is equality of the abstract view)
# is stated once per type by this expansion.
CLONE_EQ = """impl<{g}> Clone for {t} {{
    #[verifier::external_body]
    fn clone(&self) -> (r: Self) ensures r == *self {{ unimplemented!() }}
}}
impl<{g}> vstd::std_specs::cmp::PartialEqSpecImpl for {t} {{
    open spec fn obeys_eq_spec() -> bool {{ true }}
    open spec fn eq_spec(&self, other: &Self) -> bool {{ *self == *other }}
}}
impl<{g}> PartialEq for {t} {{
    #[verifier::external_body]
    fn eq(&self, other: &Self) -> bool {{ unimplemented!() }}
}}"""


class Unsupported(Exception):
    pass


def _drop_docs_and_attrs(text: str, dropped: list) -> str:
    out = []
    lines = text.split("\n")
    i = 0
    while i < len(lines):
        ln = lines[i]
        st = ln.strip()
        if st.startswith("///") or st.startswith("//!"):
            dropped.append("doc")
            i += 1
            continue
        if DROP_ATTR.match(ln):
            # possibly multi-line attribute: consume until brackets balance
            buf = ln
            while buf.count("[") > buf.count("]") and i + 1 < len(lines):
                i += 1
                buf += "\n" + lines[i]
            dropped.append("attr:" + re.sub(r"\s+", " ", buf.strip())[:60])
            i += 1
            continue
        out.append(ln)
        i += 1
    return "\n".join(out)


def _normalize_vis(text: str, dropped: list) -> str:
    """D3: `pub(super)` / `pub(in path)` cannot be expressed in the single flat
    module the unit is assembled in; they become `pub(crate)`."""
    new = re.sub(r"\bpub\((?:super|in [\w:]+)\)", "pub(crate)", text)
    if new != text:
        dropped.append("vis:pub(super)->pub(crate)")
    return new


def _drop_tracing(text: str, dropped: list) -> str:
    """Remove statements that consist solely of a tracing macro call."""
    while True:
        masked = rsrc.mask(text)
        m = re.search(r"(?m)^[ \t]*(?:let\s+_\w*\s*=\s*)?" + TRACE_MACROS + r"!\s*\(", masked)
        if not m:
            return text
        # match parens
        k = m.end() - 1
        depth = 0
        while k < len(masked):
            if masked[k] == "(":
                depth += 1
            elif masked[k] == ")":
                depth -= 1
                if depth == 0:
                    break
            k += 1
        # statement continues to the next ';' (e.g. `.entered();`) — only
        # method-call chains without side effects on program state are expected
        semi = masked.find(";", k)
        tail = masked[k + 1:semi]
        if semi < 0 or not re.fullmatch(r"\s*(?:\.\s*(?:entered|enter|in_scope)\s*\(\s*\))?\s*", tail):
            raise Unsupported("tracing macro used as an expression: " + text[m.start():k + 1][:80])
        end = semi + 1
        if end < len(text) and text[end] == "\n":
            end += 1
        dropped.append("trace:" + re.sub(r"\s+", " ", text[m.start():semi + 1].strip())[:70])
        text = text[:m.start()] + text[end:]


def _split_top(text: str, sep: str):
    """split at `sep` (one character) outside (), [], {}"""
    parts, depth, cur = [], 0, []
    for ch in text:
        if ch in "([{":
            depth += 1
        elif ch in ")]}":
            depth -= 1
        if ch == sep and depth == 0:
            parts.append("".join(cur)); cur = []
        else:
            cur.append(ch)
    parts.append("".join(cur))
    return parts


_NO_BINDING = re.compile(r"^(?:_|[A-Z]\w*(?:::[A-Z]\w*)*(?:\(\s*(?:_|\.\.)(?:\s*,\s*(?:_|\.\.))*\s*\))?)$")


def _deref_ref_patterns(text: str, dropped: list) -> str:
    """D4, see the module docstring."""
    m = re.search(r"\bmatch\s*\(", text)
    if not m:
        raise Unsupported("refpat=deref: no `match (..)` with a tuple scrutinee in the function")
    i = m.end() - 1
    j = rsrc.match_close(text, i) if hasattr(rsrc, "match_close") else None
    if j is None:
        depth = 0
        for k in range(i, len(text)):
            if text[k] == "(":
                depth += 1
            elif text[k] == ")":
                depth -= 1
                if depth == 0:
                    j = k
                    break
    comps = _split_top(text[i + 1:j], ",")
    if len(comps) < 2:
        raise Unsupported("refpat=deref: the scrutinee is not a tuple")
    scrut = "(" + ", ".join("*" + c.strip() for c in comps) + ")"
    k = text.index("{", j)
    depth, end = 0, None
    for q in range(k, len(text)):
        if text[q] == "{":
            depth += 1
        elif text[q] == "}":
            depth -= 1
            if depth == 0:
                end = q
                break
    body = text[k + 1:end]
    out, pos, n_removed = [], 0, 0
    while True:
        # pattern: up to `=>` outside brackets
        depth, q, arrow = 0, pos, None
        while q < len(body) - 1:
            ch = body[q]
            if ch in "([{":
                depth += 1
            elif ch in ")]}":
                depth -= 1
            elif depth == 0 and body[q:q + 2] == "=>":
                arrow = q
                break
            q += 1
        if arrow is None:
            out.append(body[pos:])
            break
        pat = body[pos:arrow]
        if " if " in pat:
            raise Unsupported("refpat=deref: match guard in a reference-pattern match")
        bare = re.sub(r"//[^\n]*", "", pat)
        for alt in _split_top(bare, "|"):
            a = alt.strip()
            if not a:
                continue
            if not (a.startswith("(") and a.endswith(")")):
                if a == "_":
                    continue
                raise Unsupported("refpat=deref: arm pattern `%s` is not a tuple pattern" % a[:40])
            for c in _split_top(a[1:-1], ","):
                for sub in _split_top(c, "|"):
                    sub = sub.strip()
                    if not sub:
                        continue
                    if sub.startswith("&"):
                        if "&" in sub[1:]:
                            raise Unsupported("refpat=deref: nested reference pattern `%s`" % sub[:40])
                    elif not _NO_BINDING.match(sub):
                        raise Unsupported("refpat=deref: component `%s` has no `&` but may bind by reference" % sub[:40])
        # remove the `&` that opens a tuple component (or an alternative inside one): preceded by `(`, `,` or `|`
        new_pat, cnt = re.subn(r"(?<=[(,|])(\s*)&(?=\s*[A-Z_a-z])", r"\1", pat)
        n_removed += cnt
        out.append(new_pat)
        # body of the arm
        q = arrow + 2
        while body[q].isspace():
            q += 1
        if body[q] == "{":
            depth = 0
            while True:
                if body[q] == "{":
                    depth += 1
                elif body[q] == "}":
                    depth -= 1
                    if depth == 0:
                        break
                q += 1
            q += 1
            while q < len(body) and body[q] in " \t":
                q += 1
            if q < len(body) and body[q] == ",":
                q += 1
        else:
            depth = 0
            while q < len(body):
                ch = body[q]
                if ch in "([{":
                    depth += 1
                elif ch in ")]}":
                    depth -= 1
                elif ch == "," and depth == 0:
                    q += 1
                    break
                q += 1
        out.append(body[arrow:q])
        pos = q
    if n_removed == 0:
        raise Unsupported("refpat=deref: the match has no reference patterns any more (template out of date)")
    dropped.append("D4: %d reference patterns `&P` -> `P`, scrutinee `%s` -> `%s`" % (n_removed, re.sub(r"\s+", " ", text[i:j + 1]), scrut))
    return text[:i] + scrut + text[j + 1:k + 1] + "".join(out) + text[end:]


def _annotate_closures(fn_text: str, headers: list) -> str:
    """I5, see the module docstring."""
    body_start = fn_text.index("{")
    spots = [m for m in re.finditer(r"\(\s*\|([^|]*)\|", fn_text) if m.start() > body_start]
    if len(spots) != len(headers):
        raise Unsupported(f"closures restructured: the unit annotates {len(headers)} closure argument(s), the function now has {len(spots)}")
    for m, header in reversed(list(zip(spots, headers))):
        names = [x.strip().split(":")[0].strip() for x in m.group(1).split(",") if x.strip()]
        hm = re.match(r"\s*\|([^|]*)\|", header)
        hnames = [x.strip().split(":")[0].strip() for x in hm.group(1).split(",") if x.strip()] if hm else None
        if hnames != names:
            raise Unsupported(f"closure parameters changed: the unit annotates `|{', '.join(hnames or [])}|`, the function has `|{', '.join(names)}|`")
        # body of the closure: up to the `)` that closes the call
        depth, q = 0, m.end()
        while True:
            ch = fn_text[q]
            if ch in "([{":
                depth += 1
            elif ch in ")]}":
                if depth == 0:
                    break
                depth -= 1
            q += 1
        expr = fn_text[m.end():q].strip()
        if expr.startswith("{"):
            raise Unsupported("closure with a block body: not annotated by I5")
        bar = fn_text.index("|", m.start())
        fn_text = fn_text[:bar] + header.strip() + " { " + expr + " }" + fn_text[q:]
    return fn_text


def _insert_contract(fn_text: str, contract: str, binder: str = "r") -> str:
    """fn_text starts at the `fn` declaration line and ends with the body's '}'."""
    masked = rsrc.mask(fn_text)
    # body open: first '{' at paren depth 0
    depth, ob = 0, None
    for k, ch in enumerate(masked):
        if ch in "([":
            depth += 1
        elif ch in ")]":
            depth -= 1
        elif ch == "{" and depth == 0:
            ob = k
            break
    sig, body = fn_text[:ob], fn_text[ob:]
    msig = masked[:ob]
    # locate '->' at depth 0 after the parameter list
    depth, arrow = 0, None
    k = 0
    while k < len(msig):
        ch = msig[k]
        if ch in "([<":
            depth += 1
        elif ch in ")]":
            depth -= 1
        elif ch == ">" and msig[k - 1] != "-":
            depth -= 1
        elif ch == "-" and msig[k:k + 2] == "->" and depth == 0:
            arrow = k
            break
        k += 1
    where_txt = ""
    if arrow is not None:
        # return type runs to a depth-0 `where` or to the end of the signature
        rt_start = arrow + 2
        wm = None
        d2 = 0
        for mm in re.finditer(r"\bwhere\b|[<(\[]|->|[>)\]]", msig[rt_start:]):
            t = mm.group(0)
            if t in "<([":
                d2 += 1
            elif t == "->":
                pass
            elif t in ">)]":
                d2 -= 1
            elif t == "where" and d2 == 0:
                wm = rt_start + mm.start()
                break
        rt_end = wm if wm is not None else len(sig)
        rt = sig[rt_start:rt_end].strip()
        where_txt = sig[rt_end:] if wm is not None else ""
        sig = sig[:arrow] + f"-> ({binder}: {rt})" + ("\n" + where_txt.rstrip() if where_txt.strip() else "")
    else:
        sig = sig.rstrip()
    return sig.rstrip() + "\n" + contract.rstrip() + "\n" + body


def _loop_forms(fn_text: str) -> str:
    """The loops of a function as written, in order: `loop`, `while`, `while let`, `for`."""
    masked = rsrc.mask(fn_text)
    return ",".join(re.sub(r"\s+", " ", m.group(0)) for m in re.finditer(r"\b(loop\b|while\s+let\b|while\b|for\b(?=\s+[\w(&_]))", masked)
                    if m.group(0) != "for" or masked[:m.start()].rstrip()[-1:] in ("", "{", "}", ";", ":"))   # not `impl X for Y`


def _insert_loop_invariants(fn_text: str, invs: list, loopform: str = None) -> str:
    """Insert `invs[k]` between the k-th loop header and its body brace.  `loopform` (a regular expression over
    _loop_forms) names the loop spellings the invariants were written for: a function whose loops were
    restructured is not decided by this unit (exit 2) - an invariant that no longer fits is not a violation."""
    if loopform is not None:
        actual = _loop_forms(fn_text)
        if not re.fullmatch(loopform, actual):
            raise Unsupported(f"loops restructured: the invariants of this unit were written for `{loopform}`, the function now has `{actual}`")
    out, pos = "", 0
    for inv in invs:
        masked = rsrc.mask(fn_text)
        m = re.compile(r"\b(loop|while)\b").search(masked, pos)
        if not m:
            raise Unsupported("loop invariant given but no loop found")
        # the loop body's '{' : first '{' at paren depth 0 after the keyword
        k, depth = m.end(), 0
        while k < len(masked):
            ch = masked[k]
            if ch in "([":
                depth += 1
            elif ch in ")]":
                depth -= 1
            elif ch == "{" and depth == 0:
                break
            k += 1
        fn_text = fn_text[:k] + "\n" + inv.rstrip() + "\n" + fn_text[k:]
        pos = k + len(inv) + 2
    return fn_text


def _parse_kv(s: str) -> dict:
    d = {}
    for tok in shlex.split(s):
        if "=" in tok:
            k, v = tok.split("=", 1)
            d[k] = v
    return d


def assemble(repo_dir: str, unit: dict, out_path: str):
    """Build the single Verus file for a unit.  Returns (meta) where meta has
    'functions' (under contract), 'linemap', 'dropped', 'assumption_scan'."""
    tpath = os.path.join(VERUS_DIR, unit["template"])
    tmpl = []
    for ln in open(tpath).read().split("\n"):
        # `<text> //@ONLY <unit id>`: the line belongs to that unit only (several units may share a template)
        mo = re.search(r"\s*//@ONLY\s+(\w+)\s*$", ln)
        if mo:
            if mo.group(1) != unit["id"]:
                continue
            ln = ln[:mo.start()]
        mi = re.match(r"\s*//@INCLUDE\s+(\S+)", ln)
        if mi:
            tmpl += open(os.path.join(VERUS_DIR, mi.group(1))).read().split("\n")
        else:
            tmpl.append(ln)
    # first pass: collect contracts
    contracts, body_lines = {}, []
    i = 0
    while i < len(tmpl):
        ln = tmpl[i]
        m = re.match(r"\s*//@CONTRACT\s+(\w+)", ln)
        if m:
            buf = []
            i += 1
            while not re.match(r"\s*//@END", tmpl[i]):
                buf.append(tmpl[i])
                i += 1
            contracts[m.group(1)] = "\n".join(buf)
            i += 1
            continue
        body_lines.append(ln)
        i += 1
    out, functions, linemap, dropped_all = [], [], [], []
    cache = {}

    def load(rel):
        if rel not in cache:
            p = os.path.join(repo_dir, rel)
            if not os.path.exists(p):
                raise rsrc.AnchorLost(f"file {rel} missing")
            s = open(p).read()
            cache[rel] = (s, rsrc.mask(s))
        return cache[rel]

    present_skipped = set()
    for ln in body_lines:
        mp = re.search(r"\s*//@ONLY_IF_PRESENT\s+(\w+)\s*$", ln)
        if mp:
            # a stand-in that only exists when the tree defines the override named (see `ifpresent=skip`)
            if mp.group(1) in present_skipped:
                out.append(ln[:mp.start()])
            continue
        m = re.match(r"(\s*)//@(TYPE|FN|CLONE_EQ)\s+(.*)$", ln)
        if not m:
            out.append(ln)
            continue
        if m.group(2) == "CLONE_EQ":
            kv = _parse_kv(m.group(3))
            g, t = kv.get("generics", ""), kv["type"]
            out.extend(CLONE_EQ.format(g=g, t=t).split("\n"))
            continue
        indent, kind, kv = m.group(1), m.group(2), _parse_kv(m.group(3))
        src, masked = load(kv["file"])
        dropped = []
        if kind == "TYPE":
            item_start, decl_start, end = rsrc.find_type(src, kv["kind"], kv["name"], masked)
            text = src[decl_start:end]
            text = _drop_docs_and_attrs(text, dropped)
            text = _normalize_vis(text, dropped)
            if kv.get("vis") == "pub":
                # D3': the type itself becomes `pub` (its fields keep their visibility), so that the prelude's public
                # container types may mention it
                text2v = re.sub(r"^(\s*)pub\([a-z]+\)\s+(struct|enum)\b", r"\1pub \2", text, count=1)
                if text2v != text:
                    dropped.append("D3': `pub(crate)` on the type definition widened to `pub`")
                    text = text2v
            pre = []
            if "attrs" in kv:
                pre.append(kv["attrs"])
            start_line = len(out) + 1 + len(pre)
            block = "\n".join(pre + [text])
            out.extend(block.split("\n"))
            functions.append({"function": f"{kv['kind']} {kv['name']} (definition)", "file": kv["file"],
                              "line": src.count("\n", 0, decl_start) + 1, "sha256": sha256(text), "kind": "type definition extracted verbatim"})
            linemap.append({"start": start_line, "end": len(out), "file": kv["file"], "item": kv["name"],
                            "repo_line": src.count("\n", 0, decl_start) + 1})
        else:
            implicit = None
            try:
                fn = rsrc.find_fn(src, kv["fn"], kv.get("within"), int(kv.get("nth", "0")), masked)
                text = src[fn.decl_start:fn.body_close + 1]
                if kv.get("ifpresent") == "skip":
                    # the override exists but its text is outside Verus (stated in the template): only its
                    # PRESENCE is recorded; nothing about its body is claimed
                    functions.append({"function": kv.get("path", kv["fn"]), "file": kv["file"], "line": fn.line,
                                      "sha256": sha256(text), "clauses": [],
                                      "kind": "override present; its body is NOT verified (" + kv.get("why", "outside Verus") + ")",
                                      "dropped": []})
                    present_skipped.add(kv["fn"])
                    continue
            except rsrc.AnchorLost:
                # `ifabsent=empty_drop type=<T>`: the function is `Drop::drop` of T.  If T is still defined in
                # this file but has no `impl Drop` any more, dropping a T runs NO user code: the contract is
                # checked against the implicit, empty drop (stated in the evidence), not reported as a lost anchor.
                if kv.get("ifabsent") == "empty_drop" and kv["fn"] == "drop" and "type" in kv \
                        and not list(rsrc.find_blocks(masked, kv["within"])):
                    rsrc.find_type(src, "struct", kv["type"], masked)     # raises AnchorLost if T is gone too
                    class _F: pass
                    fn = _F(); fn.line = 0
                    text = "    fn drop(&mut self) {\n    }"
                    implicit = f"no `impl Drop for {kv['type']}` in {kv['file']}: checked against the implicit empty drop"
                elif kv.get("ifabsent", "").startswith("block:") and list(rsrc.find_blocks(masked, kv["within"])):
                    # `ifabsent=block:<label>`: the impl block is there but does not define this method, so the
                    # trait's DEFAULT method runs.  The template supplies, under <label>, a stand-in whose body calls an
                    # abstract function carrying the default's contract (proved elsewhere); the unit's contract for the
                    # method is then checked against that (stated in the evidence), not reported as a lost anchor.
                    lab = kv["ifabsent"].split(":", 1)[1]
                    if lab not in contracts:
                        raise
                    class _F: pass
                    fn = _F(); fn.line = 0
                    text = contracts[lab]
                    implicit = f"`{kv['fn']}` is not defined in the impl block of {kv['file']}: checked against the trait's default method (stand-in `{lab}`)"
                else:
                    raise
            original = text
            text = _drop_docs_and_attrs(text, dropped)
            text = _drop_tracing(text, dropped)
            text = _normalize_vis(text, dropped)
            if kv.get("anonparams") == "name":
                brace = text.index("{")
                cnt = [0]
                def _nm(m):
                    cnt[0] += 1
                    return "%s_p%d:" % (m.group(1), cnt[0] - 1)
                sig = re.sub(r"([(,]\s*)_\s*:", _nm, text[:brace])
                if cnt[0] == 0:
                    raise Unsupported("anonparams=name: the signature has no `_` parameter any more (template out of date)")
                dropped.append("D5: %d anonymous parameter(s) `_` named _p0.." % cnt[0])
                text = sig + text[brace:]
            if kv.get("refpat") == "deref":
                text = _deref_ref_patterns(text, dropped)
            if kv.get("vis") == "drop":
                text = re.sub(r"^(\s*)pub(\([a-z]+\))?\s+", r"\1", text, count=1)
            label = kv["contract"]
            if label not in contracts:
                raise Unsupported(f"template {unit['template']}: contract {label} not defined")
            ctext = contracts[label]
            text2 = _insert_contract(text, ctext, kv.get("binder", "r"))
            # I3: loop invariants (annotation in place): `loopinv=<label>[,<label>..]`, the k-th label
            # is inserted after the k-th `loop` / `while ..` header of the function body
            if "loopinv" in kv:
                text2 = _insert_loop_invariants(text2, [contracts[l] for l in kv["loopinv"].split(",")], kv.get("loopform"))
            if "closures" in kv:
                text2 = _annotate_closures(text2, [contracts[l] for l in kv["closures"].split(",")])
                dropped.append("I5: %d closure argument(s) annotated in place (types, result name, ensures; body text untouched)" % len(kv["closures"].split(",")))
            if "fnattrs" in kv:
                text2 = kv["fnattrs"] + "\n" + text2
            start_line = len(out) + 1
            out.extend(text2.split("\n"))
            clauses = [c.strip() for c in ctext.split("\n") if c.strip() and not c.strip().startswith("//")]
            functions.append({"function": kv.get("path", kv["fn"]), "file": kv["file"], "line": fn.line,
                              "sha256": sha256(original), "clauses": clauses,
                              "kind": implicit or "function body extracted verbatim (Verus contract inserted)",
                              "dropped": dropped})
            linemap.append({"start": start_line, "end": len(out), "file": kv["file"], "item": kv.get("path", kv["fn"]),
                            "repo_line": fn.line, "contract": label})
        dropped_all.extend(dropped)
    text = "\n".join(out) + "\n"
    open(out_path, "w").write(text)
    scan = {
        "external_body": len(re.findall(r"#\[verifier::external_body\]", text)),
        "external": len(re.findall(r"#\[verifier::external\]", text)),
        "assume_specification": len(re.findall(r"\bassume_specification\b", text)),
        "assume": len(re.findall(r"\bassume\s*\(", text)),
        "admit": len(re.findall(r"\badmit\s*\(", text)),
        "uninterp_spec_fn": len(re.findall(r"\buninterp\s+spec\s+fn\b", text)),
        "exec_allows_no_decreases_clause": len(re.findall(r"exec_allows_no_decreases_clause", text)),
    }
    return {"functions": functions, "linemap": linemap, "dropped": dropped_all, "scan": scan,
            "file_sha256": sha256(text), "lines": len(out)}


def _locate(linemap, line):
    for e in linemap:
        if e["start"] <= line <= e["end"]:
            return e
    return None


_UNKNOWN_CALLEE = [
    re.compile(r"no method named `(\w+)` found for"),
    re.compile(r"cannot find function `(\w+)` in this scope"),
    re.compile(r"no function or associated item named `(\w+)` found for"),
]


def _single_expression(body: str) -> bool:
    """True if a function body (text between its braces) is one expression: no statement separator at
    brace/paren depth 0, no let / return / loops."""
    b = rsrc.mask(body)
    depth = 0
    for ch in b:
        if ch in "([{":
            depth += 1
        elif ch in ")]}":
            depth -= 1
        elif ch == ";" and depth == 0:
            return False
    return not re.search(r"\b(let|return|loop|while|for|break|continue)\b", b) and b.strip() != ""


def _import_helper(repo_dir: str, meta: dict, unit: dict, name: str):
    """I4: a function that the tree defines next to the functions under contract but that the unit's
    prelude does not know (typically a helper introduced by the change under check).  Its text is
    imported verbatim into the impl block it comes from; if its body is a single expression the
    contract `ensures r == (<that expression>)` is generated, otherwise it gets no contract (its
    result is then unconstrained for the callers).  Returns (text, description) or None."""
    files = []
    for f in meta["functions"]:
        if f.get("file") and f["file"] not in files:
            files.append(f["file"])
    for extra in unit.get("helper_files", []):
        if extra not in files:
            files.append(extra)
    hits = []
    for rel in files:
        try:
            src = open(os.path.join(repo_dir, rel)).read()
        except OSError:
            continue
        masked = rsrc.mask(src)
        nth = 0
        while True:
            try:
                fn = rsrc.find_fn(src, name, None, nth, masked)
            except rsrc.AnchorLost:
                break
            nth += 1
            header = None
            for (hs, ob, cb) in rsrc.find_blocks(masked, r".*"):
                if ob < fn.decl_start < cb and (header is None or hs > header[0]):
                    header = (hs, ob, cb)
            hits.append((rel, src, fn, header))
    if len(hits) != 1:
        return None
    rel, src, fn, header = hits[0]
    dropped = []
    text = src[fn.decl_start:fn.body_close + 1]
    original = text
    text = _drop_docs_and_attrs(text, dropped)
    text = _drop_tracing(text, dropped)
    text = _normalize_vis(text, dropped)
    body = src[fn.body_open + 1:fn.body_close]
    has_ret = "->" in rsrc.mask(fn.signature)
    auto = False
    if has_ret and _single_expression(_drop_tracing(body, [])):
        text = _insert_contract(text, "    ensures r == (" + " ".join(_drop_tracing(body, []).split()) + "),", "r")
        auto = True
    if header is not None:
        htxt = " ".join(src[header[0]:header[1]].split())
        if not htxt.startswith("impl"):
            return None
        text = htxt + " {\n" + text + "\n}"
    desc = {"function": name, "file": rel, "line": fn.line, "sha256": sha256(original),
            "kind": "helper imported automatically (unknown to the unit's prelude); " +
                    ("contract generated from its single-expression body" if auto else "no contract: result unconstrained"),
            "clauses": ["r == <its own body>"] if auto else [], "dropped": dropped}
    return text, desc


def run_unit(repo_dir: str, unit: dict, tier: str, workdir: str):
    """Runs the unit; when Verus stops at a callee it does not know and the tree defines that function next to
    the functions under contract, the helper is imported (I4) and the unit is run again (at most 3 times)."""
    info = _run_unit_once(repo_dir, unit, tier, workdir, [])
    helpers = []
    for _ in range(3):
        if info["status"] != "undecided" or not info["other_errors"]:
            break
        name = None
        for e in info["other_errors"]:
            for rx in _UNKNOWN_CALLEE:
                m = rx.search(e["message"])
                if m:
                    name = m.group(1)
                    break
            if name:
                break
        if not name or any(h[1]["function"] == name for h in helpers):
            break
        try:
            imp = _import_helper(repo_dir, info["meta"], unit, name)
        except Exception:
            imp = None
        if not imp:
            break
        helpers.append(imp)
        first_reason = info.get("reason")
        info = _run_unit_once(repo_dir, unit, tier, workdir, helpers)
        info["auto_helpers"] = [h[1] for h in helpers]
        if info["status"] == "undecided" and first_reason and "reason" in info:
            info["reason"] += " (after importing helper `%s`; before: %s)" % (name, first_reason[:120])
    # a helper imported WITHOUT a contract is an unconstrained function: what is refuted under that model may well
    # hold for the real helper, so it is not reported as a violation
    loose = [h[1]["function"] for h in helpers if not h[1]["clauses"]]
    if info.get("helper_contract_unproved") and info["status"] in ("refuted", "verified"):
        info["status"] = "undecided"
        info["reason"] = "the contract generated for an imported helper could not be proved"
        info["refuted_under_havoc"], info["refuted"] = info["refuted"], []
    if loose and info["status"] == "refuted":
        info["status"] = "undecided"
        info["reason"] = ("refuted only under an unconstrained model of the new helper(s) %s (multi-statement body, no "
                          "contract could be generated): %s" % (", ".join(loose), info["refuted"][0]["message"][:120]))
        info["refuted_under_havoc"] = info["refuted"]
        info["refuted"] = []
    return info


def _run_unit_once(repo_dir: str, unit: dict, tier: str, workdir: str, helpers: list):
    """Returns info dict: status in {'verified','refuted','undecided'}."""
    out_path = os.path.join(workdir, f"{unit['id'].lower()}_{os.path.splitext(os.path.basename(unit['template']))[0]}.rs")
    meta = assemble(repo_dir, unit, out_path)
    helper_ranges = []
    if helpers:
        text = open(out_path).read()
        k = text.rindex("} // verus!")
        add = "\n// ---- I4: helpers imported automatically from the tree (unknown to the unit's prelude)\n"
        before_lines = text[:k].count("\n") + add.count("\n")
        for htext, hdesc in helpers:
            start = before_lines + 1
            add += htext + "\n"
            before_lines += htext.count("\n") + 1
            helper_ranges.append((start, before_lines))
            meta["functions"].append(hdesc)
        text = text[:k] + add + text[k:]
        open(out_path, "w").write(text)
    rlimit = unit.get("rlimit", 30) * (2 if tier == "thorough" else 1)
    cmd = ["verus", out_path, "--output-json", "--time", "--error-format=json", "--rlimit", str(rlimit), "--num-threads", "8"]
    if tier == "thorough":
        cmd += ["-V", "spinoff-all"] if unit.get("spinoff", False) else []
    rc, out, err, wall, timed_out = run(cmd, cwd=workdir, env=tool_env(), timeout=unit.get("timeout", 600))
    info = {"unit": unit["id"], "cmd": " ".join(cmd), "rc": rc, "wall_s": round(wall, 2), "meta": meta,
            "file": out_path, "refuted": [], "other_errors": [], "status": "undecided", "verified": 0, "errors": 0,
            "smt_ms": None, "per_function": []}
    if timed_out:
        info["reason"] = "verus timed out"
        return info
    try:
        js = json.loads(out[out.index("{"):])
    except Exception:
        js = None
    if js:
        vr = js.get("verification-results", {})
        info["verified"], info["errors"] = vr.get("verified", 0), vr.get("errors", 0)
        t = js.get("times-ms", {})
        info["smt_ms"] = t.get("smt", {}).get("total")
        info["total_ms"] = t.get("total")
        for mod in t.get("smt", {}).get("smt-run-module-times", []):
            for f in mod.get("function-breakdown", []):
                info["per_function"].append({"function": f.get("function"), "mode": f.get("mode:"), "time_us": f.get("time-micros"),
                                             "rlimit": f.get("rlimit"), "success": f.get("success")})
    for line in err.splitlines():
        line = line.strip()
        if not line.startswith("{"):
            continue
        try:
            d = json.loads(line)
        except Exception:
            continue
        if d.get("level") != "error":
            continue
        msg = d.get("message", "")
        if msg.startswith("aborting due to"):
            continue
        spans = d.get("spans", [])
        # a span inside a macro expansion (`panic!`, `assert!`) points into the macro's definition: walk out to the call site
        def _callsite(sp):
            seen = 0
            while sp.get("expansion") and os.path.basename(sp.get("file_name", "")) != os.path.basename(out_path) and seen < 8:
                sp = dict(sp["expansion"]["span"], is_primary=sp.get("is_primary"), label=sp.get("label"))
                seen += 1
            return sp
        spans = [_callsite(sp) for sp in spans]
        prim = [s for s in spans if s.get("is_primary")] or spans
        where = []
        for s in spans:
            e = _locate(meta["linemap"], s.get("line_start", -1))
            txt = " ".join(t["text"].strip() for t in s.get("text", []))[:200]
            where.append({"label": s.get("label"), "asm_line": s.get("line_start"), "text": txt,
                          "item": e["item"] if e else None, "file": e["file"] if e else None,
                          "repo_line_approx": (e["repo_line"] + s["line_start"] - e["start"]) if e else None,
                          "primary": bool(s.get("is_primary"))})
        rec = {"message": msg, "where": where, "rendered": d.get("rendered", "")[:1500]}
        prim_lines = [sp.get("line_start", -1) for sp in prim]
        if helper_ranges and prim_lines and all(any(a <= ln <= b for a, b in helper_ranges) for ln in prim_lines) \
                and any(k in msg for k in REFUTATION_MSGS):
            # a safety obligation (overflow, unwrap) INSIDE an imported helper: not part of any contract of the unit
            info.setdefault("helper_internal", []).append(rec)
            if "postcondition" in msg:
                # the generated contract `r == <body>` itself could not be proved: do not let callers rely on it
                info["helper_contract_unproved"] = True
            continue
        if any(k in msg for k in REFUTATION_MSGS):
            info["refuted"].append(rec)
        else:
            info["other_errors"].append(rec)
    if info["other_errors"]:
        info["status"] = "undecided"
        info["reason"] = "verus error that is not a refuted obligation: " + info["other_errors"][0]["message"][:200]
    elif info["refuted"]:
        info["status"] = "refuted"
    elif js and info["verified"] > 0 and (js.get("verification-results", {}).get("success")
                                          or (info.get("helper_internal") and info["errors"] <= len(info["helper_internal"]))):
        info["status"] = "verified"
    else:
        info["reason"] = "no verification result (rc=%s): %s" % (rc, err[-400:])
    return info
