"""Rust source locator: finds items (fn / enum / struct / impl blocks) in a Rust
file by name with comment/string-aware brace matching.  Used both by the Kani
attribute injector and by the Verus verbatim extractor, so that both work on
whatever /repo's working tree contains at the moment of the check.

Nothing here rewrites code: it only computes spans in the original text.
"""
import re


class AnchorLost(Exception):
    """An anchor (file, impl header or function) named by a unit is not present
    in the current tree.  The unit becomes UNDECIDED (exit 2), never VIOLATION."""


def mask(src: str) -> str:
    """Return a string of the same length where the *contents* of comments,
    string literals and char literals are replaced by spaces (newlines kept),
    so that brace matching and regexes are not fooled by them."""
    out = list(src)
    i, n = 0, len(src)

    def blank(a, b):
        for k in range(a, b):
            if out[k] != "\n":
                out[k] = " "

    while i < n:
        c = src[i]
        if c == "/" and i + 1 < n and src[i + 1] == "/":
            j = src.find("\n", i)
            j = n if j < 0 else j
            blank(i, j)
            i = j
        elif c == "/" and i + 1 < n and src[i + 1] == "*":
            depth, j = 1, i + 2
            while j < n and depth:
                if src.startswith("/*", j):
                    depth += 1
                    j += 2
                elif src.startswith("*/", j):
                    depth -= 1
                    j += 2
                else:
                    j += 1
            blank(i, j)
            i = j
        elif c == '"':
            j = i + 1
            while j < n and src[j] != '"':
                j += 2 if src[j] == "\\" else 1
            blank(i + 1, min(j, n))
            i = j + 1
        elif c == "r" and re.match(r'r#*"', src[i:i + 8]) and (i == 0 or not (src[i - 1].isalnum() or src[i - 1] == "_")):
            m = re.match(r'r(#*)"', src[i:])
            hashes = m.group(1)
            end = src.find('"' + hashes, i + len(m.group(0)))
            end = n if end < 0 else end
            blank(i + len(m.group(0)), end)
            i = end + 1 + len(hashes)
        elif c == "'":
            # char literal or lifetime
            m = re.match(r"'(\\.[^']*|[^'\\])'", src[i:i + 12])
            if m:
                blank(i + 1, i + len(m.group(0)) - 1)
                i += len(m.group(0))
            else:
                i += 1
        else:
            i += 1
    return "".join(out)


def match_brace(masked: str, open_pos: int) -> int:
    """Given the index of a '{' in masked text, return the index of its '}'."""
    assert masked[open_pos] == "{"
    depth = 0
    for k in range(open_pos, len(masked)):
        ch = masked[k]
        if ch == "{":
            depth += 1
        elif ch == "}":
            depth -= 1
            if depth == 0:
                return k
    raise AnchorLost("unbalanced braces")


def _norm(s: str) -> str:
    return re.sub(r"\s+", " ", s).strip()


def find_blocks(masked: str, header_regex: str, lo=0, hi=None):
    """Yield (header_start, open_brace, close_brace) of every block whose header
    text (from keyword to '{', whitespace-normalised) matches header_regex.
    Headers start with impl/trait/mod at line start (after optional pub/unsafe)."""
    hi = len(masked) if hi is None else hi
    rx = re.compile(header_regex)
    for m in re.finditer(r"(?m)^[ \t]*((?:pub(?:\([a-z]+\))?\s+)?(?:unsafe\s+)?(?:impl|trait|mod)\b)", masked[lo:hi]):
        start = lo + m.start(1)
        ob = masked.find("{", start, hi)
        semi = masked.find(";", start, hi)
        if ob < 0 or (0 <= semi < ob):
            continue
        header = _norm(masked[start:ob])
        if rx.search(header):
            yield start, ob, match_brace(masked, ob)


def _item_start(src: str, masked: str, kw_line_start: int) -> int:
    """Walk backwards from the start of the line holding the item keyword over
    attribute lines, doc comments and blank-free lines that belong to it."""
    pos = kw_line_start
    while pos > 0:
        prev_end = pos - 1
        prev_start = src.rfind("\n", 0, prev_end) + 1
        line = src[prev_start:prev_end].strip()
        if line.startswith("///") or line.startswith("#[") or line.startswith("//!"):
            pos = prev_start
            continue
        # multi-line attribute: previous line ends an attribute that began earlier
        if line.endswith(")]") or line.endswith("]"):
            # search upwards for a line starting with #[ with balanced brackets
            k = prev_start
            found = None
            for _ in range(12):
                if k == 0:
                    break
                ls = src.rfind("\n", 0, k - 1) + 1
                txt = src[ls:prev_end]
                if src[ls:k].strip().startswith("#[") and txt.count("[") == txt.count("]"):
                    found = ls
                    break
                k = ls
            if found is not None:
                pos = found
                continue
        break
    return pos


class Fn:
    def __init__(self, src, item_start, decl_start, body_open, body_close):
        self.src = src
        self.item_start = item_start      # first attr/doc line
        self.decl_start = decl_start      # start of line with `fn`
        self.body_open = body_open        # index of '{'
        self.body_close = body_close      # index of '}'

    @property
    def signature(self):
        return self.src[self.decl_start:self.body_open]

    @property
    def body(self):
        return self.src[self.body_open:self.body_close + 1]

    @property
    def text(self):
        return self.src[self.item_start:self.body_close + 1]

    @property
    def line(self):
        return self.src.count("\n", 0, self.decl_start) + 1


def find_fn(src: str, name: str, within: str = None, nth: int = 0, masked: str = None) -> Fn:
    """Locate `fn name` (with a body).  `within` is a regex on the enclosing
    impl/trait/mod header (None: anywhere, first match).  `nth` selects among
    several matches (e.g. same fn name in several impls matching `within`)."""
    masked = masked or mask(src)
    spans = [(0, len(src))]
    if within is not None:
        spans = [(ob, cb) for (_, ob, cb) in find_blocks(masked, within)]
        if not spans:
            raise AnchorLost(f"no block matching /{within}/")
    hits = []
    rx = re.compile(r"(?m)^([ \t]*)((?:pub(?:\([a-z: ]+\))?\s+)?(?:const\s+)?(?:unsafe\s+)?fn\s+" + re.escape(name) + r"\b)")
    for lo, hi in spans:
        for m in rx.finditer(masked, lo, hi):
            # find body open: first '{' at paren/bracket depth 0 after the match,
            # unless a ';' comes first (declaration without body)
            k, depth = m.end(), 0
            ob = None
            while k < hi:
                ch = masked[k]
                if ch in "([":
                    depth += 1
                elif ch in ")]":
                    depth -= 1
                elif ch == ";" and depth == 0:
                    break
                elif ch == "{" and depth == 0:
                    ob = k
                    break
                k += 1
            if ob is None:
                continue
            cb = match_brace(masked, ob)
            decl_start = m.start(1)
            hits.append(Fn(src, _item_start(src, masked, decl_start), decl_start, ob, cb))
    if len(hits) <= nth:
        raise AnchorLost(f"fn {name} not found" + (f" within /{within}/" if within else ""))
    return hits[nth]


def find_type(src: str, kind: str, name: str, masked: str = None):
    """Locate `enum Name`/`struct Name` definition.  Returns (item_start,
    decl_start, end) where end is the index just past the closing '}' or ';'."""
    masked = masked or mask(src)
    rx = re.compile(r"(?m)^([ \t]*)((?:pub(?:\([a-z]+\))?\s+)?" + kind + r"\s+" + re.escape(name) + r"\b)")
    m = rx.search(masked)
    if not m:
        raise AnchorLost(f"{kind} {name} not found")
    k, depth = m.end(), 0
    while k < len(masked):
        ch = masked[k]
        if ch in "(<[":
            depth += 1
        elif ch in ")>]":
            # '->' cannot occur in a type header before the body
            depth -= 1
        elif ch == ";" and depth == 0:
            end = k + 1
            break
        elif ch == "{":
            end = match_brace(masked, k) + 1
            break
        k += 1
    else:
        raise AnchorLost(f"{kind} {name}: no body")
    decl_start = m.start(1)
    return _item_start(src, masked, decl_start), decl_start, end
