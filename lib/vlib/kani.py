"""Kani back end: inject contracts + harness modules into a scratch copy of the
real crates, run `cargo kani`, parse per-harness results, and produce
counterexample replays with concrete playback."""
import os
import re
import shutil

from . import rsrc
from .common import VERIF, REPLAY_DIR, log, run, tool_env, sha256

KANI_DIR = os.path.join(VERIF, "kani")


class Undecided(Exception):
    pass


def inject(repo_dir: str, unit: dict):
    """Apply a unit's injections to the scratch copy.  Returns a list of
    {'function','file','line','sha256','clauses'} describing the functions put
    under contract.  Raises rsrc.AnchorLost when an anchor is missing."""
    under_contract = []
    by_file = {}
    for c in unit.get("contracts", []):
        by_file.setdefault(c["file"], []).append(c)
    for rel, cs in by_file.items():
        path = os.path.join(repo_dir, rel)
        if not os.path.exists(path):
            raise rsrc.AnchorLost(f"file {rel} missing")
        src = open(path).read()
        masked = rsrc.mask(src)
        inserts = []
        for c in cs:
            fn = rsrc.find_fn(src, c["fn"], c.get("within"), c.get("nth", 0), masked)
            indent = re.match(r"[ \t]*", src[fn.decl_start:]).group(0)
            lines = "".join(f"{indent}#[cfg_attr(kani, {a})]\n" for a in c["attrs"])
            inserts.append((fn.decl_start, lines))
            under_contract.append({
                "function": c.get("path", c["fn"]), "file": rel, "line": fn.line,
                "sha256": sha256(fn.text), "clauses": c["attrs"], "kind": "kani function contract (injected attribute)",
            })
        for pos, text in sorted(inserts, reverse=True):
            src = src[:pos] + text + src[pos:]
        open(path, "w").write(src)
    for t in unit.get("targets", []):
        # functions exercised through a harness-side contract (assume/assert around the real call)
        path = os.path.join(repo_dir, t["file"])
        if not os.path.exists(path):
            raise rsrc.AnchorLost(f"file {t['file']} missing")
        src = open(path).read()
        fn = rsrc.find_fn(src, t["fn"], t.get("within"), t.get("nth", 0))
        under_contract.append({
            "function": t.get("path", t["fn"]), "file": t["file"], "line": fn.line,
            "sha256": sha256(fn.text), "clauses": t.get("clauses", []), "kind": "harness-side contract (assume pre / assert post around the real call)",
        })
    for m in unit.get("mods", []):
        path = os.path.join(repo_dir, m["into"])
        if not os.path.exists(path):
            raise rsrc.AnchorLost(f"file {m['into']} missing")
        hpath = os.path.join(KANI_DIR, m["harness"])
        with open(path, "a") as f:
            f.write(f'\n#[cfg(kani)]\n#[path = "{hpath}"]\nmod {m["name"]};\n')
    if unit.get("tracing_stub"):
        apply_tracing_stub(repo_dir)
    for p in unit.get("crate_attrs", []):
        path = os.path.join(repo_dir, p["file"])
        src = open(path).read()
        open(path, "w").write(p["text"] + "\n" + src)
    return under_contract


TRACING_STUB_NOTE = ("build configuration of the scratch copy only: the `tracing` / `tracing-attributes` crates are replaced by no-op stand-ins "
                     "(/verif/kani/stubs) through [patch.crates-io], and the `tracing-full` default feature of chalk-solve / chalk-recursive is switched off, "
                     "because kani-compiler ICEs on tracing's dispatcher; assumption: logging (including the evaluation of log arguments) has no effect on program state")


def apply_tracing_stub(repo_dir: str):
    root = os.path.join(repo_dir, "Cargo.toml")
    txt = open(root).read()
    if "kani/stubs/tracing" in txt:
        return
    stubs = os.path.join(KANI_DIR, "stubs")
    txt += f'\n[patch.crates-io]\ntracing = {{ path = "{stubs}/tracing" }}\ntracing-attributes = {{ path = "{stubs}/tracing-attributes" }}\n'
    open(root, "w").write(txt)
    for rel in ("chalk-solve/Cargo.toml", "chalk-recursive/Cargo.toml"):
        p = os.path.join(repo_dir, rel)
        t = open(p).read()
        t = re.sub(r'(?m)^default = \["tracing-full"\]', 'default = []', t)
        open(p, "w").write(t)
    p = os.path.join(repo_dir, "chalk-engine/Cargo.toml")
    t = open(p).read()
    t = re.sub(r'(chalk-solve = \{[^}]*path = "\.\./chalk-solve")\s*\}', r'\1, default-features = false }', t)
    open(p, "w").write(t)


def discover_harnesses(unit: dict, tier: str):
    """Harness names are read from the harness files: every fn preceded by a
    #[kani::proof...] attribute.  A harness whose name ends in `_thorough` only
    runs in the thorough tier; `_quick` only in quick."""
    names = []
    for m in unit.get("mods", []):
        txt = open(os.path.join(KANI_DIR, m["harness"]) if not os.path.isabs(m["harness"]) else m["harness"]).read()
        for inc in re.findall(r'include!\("([^"]+\.rs)"\)', txt):
            if os.path.exists(inc):
                txt += "\n" + open(inc).read()
        for mm in re.finditer(r"#\[kani::proof(?:_for_contract\([^)]*\))?\]\s*(?:#\[[^\]]*\]\s*)*(?:pub\s+)?fn\s+(\w+)", txt):
            n = mm.group(1)
            if n.endswith("_thorough") and tier != "thorough":
                continue
            if n.endswith("_quick") and tier != "quick":
                continue
            names.append(n)
    only = unit.get("only")
    if only:
        names = [n for n in names if re.search(only, n)]
    return names


_T = re.compile(r"^Thread (\d+): ?(.*)$")
_CH = re.compile(r"Checking harness (\S+?)\.\.\.")


def _split_blocks(out: str):
    """cargo-kani -j N prefixes the first line of every message with `Thread N:`;
    the lines that follow (until the next `Thread` line) belong to that thread.
    Without -j there are no prefixes.  Returns {harness_full_name: text}."""
    blocks, cur_of_thread, cur_thread = {}, {}, None
    for line in out.splitlines():
        m = _T.match(line)
        if m:
            cur_thread, rest = m.group(1), m.group(2)
        else:
            rest = line
        c = _CH.search(rest)
        if c:
            if not m:
                cur_thread = "-"
            cur_of_thread[cur_thread] = c.group(1)
            blocks.setdefault(c.group(1), "")
            continue
        h = cur_of_thread.get(cur_thread)
        if h is not None:
            blocks[h] += rest + "\n"
    return blocks


def parse_output(out: str):
    """Per-harness results from cargo-kani output.  Returns {name: {...}}."""
    res = {}
    for full, body in _split_blocks(out).items():
        name = full.split("::")[-1]
        r = {"full_name": full, "status": "UNKNOWN", "checks": 0, "failed": 0, "covers": 0, "covers_sat": 0,
             "failed_checks": [], "time_s": None, "stubs": []}
        m = re.search(r"\*\* (\d+) of (\d+) failed", body)
        if m:
            r["failed"], r["checks"] = int(m.group(1)), int(m.group(2))
        m = re.search(r"\*\* (\d+) of (\d+) cover properties satisfied", body)
        if m:
            r["covers_sat"], r["covers"] = int(m.group(1)), int(m.group(2))
        m = re.search(r"VERIFICATION:- (\w+)", body)
        if m:
            r["status"] = m.group(1)
        m = re.search(r"Verification Time: ([\d.]+)s", body)
        if m:
            r["time_s"] = float(m.group(1))
        r["stubs"] = re.findall(r"- (?:Verified stub|Stub): (.*)", body)
        for fm in re.finditer(r"^Failed Checks: (.*)\n(?: File: \"([^\"]*)\", line (\d+), in (\S+))?", body, re.M):
            r["failed_checks"].append({"description": fm.group(1).strip(), "file": fm.group(2), "line": fm.group(3), "function": fm.group(4)})
        if re.search(r"CBMC (timed out|failed)|timed out|out of memory|Killed", body, re.I) and r["status"] != "SUCCESSFUL":
            r["tool_failure"] = True
        r["unwinding_failed"] = any("unwinding assertion" in f["description"] for f in r["failed_checks"])
        r["body_tail"] = body[-1500:]
        res[name] = r
    return res


def run_unit(repo_dir: str, unit: dict, tier: str, jobs: int = 8):
    """Build + run all harnesses of one unit.  Returns dict with results."""
    harnesses = unit.get("_harness_list") or discover_harnesses(unit, tier)
    if not harnesses:
        raise Undecided(f"unit {unit['id']}: no harnesses discovered")
    cmd = ["cargo", "kani", "-p", unit["crate"], "-Z", "function-contracts", "-Z", "stubbing",
           "--output-format", "terse", "-j", str(jobs)]
    cmd += unit.get("kani_args", [])
    tmo = unit.get("harness_timeout", {}).get(tier, 300 if tier == "quick" else 1200)
    cmd += ["-Z", "unstable-options", "--harness-timeout", f"{tmo}s"]
    for h in harnesses:
        cmd += ["--harness", h]
    total_to = unit.get("timeout", {}).get(tier, 1500 if tier == "quick" else 7200)
    rc, out, err, wall, timed_out = run(cmd, cwd=repo_dir, env=tool_env(), timeout=total_to)
    results = parse_output(out)
    info = {"unit": unit["id"], "cmd": " ".join(cmd), "rc": rc, "wall_s": round(wall, 1), "timed_out": timed_out,
            "harnesses": harnesses, "results": results, "raw_tail": (out[-3000:] + "\n--- stderr ---\n" + err[-3000:])}
    if "error: internal compiler error" in err or "Kani unexpectedly panicked" in err or "Kani unexpectedly panicked" in out:
        info["ice"] = True
    if re.search(r"^error(\[E\d+\])?:", err, re.M) and not results:
        info["compile_error"] = True
        errs = [m.group(0) for m in re.finditer(r"^error(\[E\d+\])?:.*(?:\n.*){0,6}", err, re.M)]
        info["raw_tail"] = "\n".join(errs)[:3000]
    return info


def playback(repo_dir: str, unit: dict, harness: str, pid: str, failed: dict, raw: str, skip: bool = False):
    """Re-run one failing harness with concrete playback and store a replay
    file.  Returns (path, has_concrete_input)."""
    os.makedirs(REPLAY_DIR, exist_ok=True)
    path = os.path.join(REPLAY_DIR, f"{pid}-{unit['id']}-{harness}.txt")
    cmd = ["cargo", "kani", "-p", unit["crate"], "-Z", "function-contracts", "-Z", "stubbing",
           "-Z", "concrete-playback", "--concrete-playback=print", "--harness", harness, "--output-format", "terse"]
    cmd += unit.get("kani_args", [])
    if skip:
        out = ""
    else:
        rc, out, err, wall, to = run(cmd, cwd=repo_dir, env=tool_env(), timeout=900)
    test = None
    m = re.search(r"```\n(.*?)```", out, re.S)
    if m:
        test = m.group(1)
    hsrc = harness_source(unit, harness)
    concrete = hsrc is not None and "kani::any" not in hsrc
    with open(path, "w") as f:
        f.write(f"# replay for property {pid}, unit {unit['id']}, harness {harness}\n")
        if hsrc:
            f.write("# harness (the call made on the real code):\n" + "".join("#   " + l + "\n" for l in hsrc.splitlines()))
        if concrete:
            f.write("# this harness has no symbolic input: the failing input is exactly the call above\n")
        f.write(f"# crate: {unit['crate']}\n")
        f.write("# failed obligations:\n")
        for fc in failed.get("failed_checks", []):
            f.write(f"#   {fc['description']}  ({fc.get('file')}:{fc.get('line')} in {fc.get('function')})\n")
        if test:
            f.write("# concrete playback test generated by Kani (paste into the harness module and run\n")
            f.write("#   `cargo kani playback -Z concrete-playback -p %s -- %s`), or use `vcheck replay <this file>`:\n" % (unit["crate"], harness))
            f.write("## BEGIN-PLAYBACK\n" + test + "## END-PLAYBACK\n")
        else:
            f.write("# no concrete input could be produced (no-failing-input-found)\n")
        f.write("# ---- verifier output (tail) ----\n")
        f.write(raw[-6000:])
    return path, (test is not None) or concrete


def harness_source(unit: dict, harness: str):
    for m in unit.get("mods", []):
        hp = m["harness"] if os.path.isabs(m["harness"]) else os.path.join(KANI_DIR, m["harness"])
        txt = open(hp).read()
        for inc in re.findall(r'include!\("([^"]+\.rs)"\)', txt):
            if os.path.exists(inc):
                txt += "\n" + open(inc).read()
        try:
            fn = rsrc.find_fn(txt, harness)
            return fn.text
        except rsrc.AnchorLost:
            continue
    return None
