//! exploration C13: declaration / where-clause order vs. answers
use chalk_integration::db::ChalkDatabase;
use chalk_integration::interner::ChalkIr;
use chalk_integration::lowering::lower_goal;
use chalk_integration::query::LoweringDatabase;
use chalk_integration::SolverChoice;
use chalk_ir::{Goal, InEnvironment, UCanonical};
use chalk_solve::ext::*;
use chalk_solve::{RustIrDatabase, Solution};

fn show(s: &Option<Solution<ChalkIr>>) -> String {
    match s { Some(v) => v.display(ChalkIr).to_string(), None => "No possible solution".to_string() }
}
fn lower(db: &ChalkDatabase, goal_text: &str) -> UCanonical<InEnvironment<Goal<ChalkIr>>> {
    let program = db.checked_program().unwrap();
    chalk_integration::tls::set_current_program(&program, || {
        let goal = lower_goal(&*chalk_parse::parse_goal(goal_text).unwrap(), &*program).unwrap();
        goal.into_peeled_goal(db.interner())
    })
}
fn perms<T: Clone>(v: &[T]) -> Vec<Vec<T>> {
    if v.len() <= 1 { return vec![v.to_vec()]; }
    let mut out = vec![];
    for i in 0..v.len() {
        let mut rest = v.to_vec(); let x = rest.remove(i);
        for mut p in perms(&rest) { p.insert(0, x.clone()); out.push(p); }
    }
    out
}
// an impl = (header, where clauses)
type Imp = (&'static str, &'static [&'static str]);
struct Prog { decls: &'static str, impls: &'static [Imp], goals: &'static [&'static str] }

const PROGS: &[Prog] = &[
    Prog { decls: "trait Foo { } trait Bar { } struct A { } struct Vec<T> { }",
      impls: &[("impl<T> Foo for Vec<T>", &["T: Bar"]), ("impl Foo for A", &[]), ("impl<T> Bar for T", &["T: Foo"])],
      goals: &["exists<T> { T: Foo }", "exists<T> { T: Bar }", "exists<T> { Vec<T>: Foo }", "exists<T> { Vec<T>: Bar }"] },
    Prog { decls: "trait Foo { } trait Bar { } trait Baz { } struct A { } struct B { } struct Vec<T> { }",
      impls: &[("impl<T> Foo for Vec<T>", &["T: Baz", "T: Bar"]), ("impl Foo for A", &[]), ("impl<T> Bar for T", &["T: Foo"]), ("impl Baz for A", &[])],
      goals: &["exists<T> { T: Foo }", "exists<T> { T: Bar }", "exists<T> { Vec<T>: Foo }", "exists<T> { T: Baz, T: Foo }"] },
    Prog { decls: "trait Foo { } trait Bar { } trait Baz { } struct A { } struct B { }",
      impls: &[("impl<T> Foo for T", &["T: Bar", "T: Baz"]), ("impl<T> Bar for T", &["T: Baz", "T: Foo"]), ("impl Baz for A", &[]), ("impl Bar for B", &[])],
      goals: &["exists<T> { T: Foo }", "exists<T> { T: Bar }", "A: Foo", "B: Foo", "exists<T> { T: Bar, T: Foo }"] },
    Prog { decls: "trait Foo { } trait Bar { } struct A { } struct B { } struct P<T, U> { }",
      impls: &[("impl<T, U> Foo for P<T, U>", &["T: Bar", "U: Foo"]), ("impl Foo for A", &[]), ("impl<T> Bar for T", &["P<T, T>: Foo"]), ("impl Bar for B", &[])],
      goals: &["exists<T> { T: Foo }", "exists<T> { T: Bar }", "exists<T, U> { P<T, U>: Foo }"] },
    Prog { decls: "trait Foo { } trait Bar { } struct A { } struct B { } struct Vec<T> { }",
      impls: &[("impl<T> Foo for Vec<T>", &["T: Foo", "T: Bar"]), ("impl Foo for A", &[]), ("impl Bar for A", &[]), ("impl<T> Bar for Vec<T>", &["T: Foo"])],
      goals: &["exists<T> { T: Foo }", "exists<T> { T: Bar }", "exists<T> { Vec<T>: Foo }", "exists<T> { T: Foo, T: Bar }"] },
];

fn run(choice: fn() -> SolverChoice, label: &str) -> usize {
    let mut n = 0;
    for (pi, p) in PROGS.iter().enumerate() {
        // where-clause permutations for each impl (cartesian), impl permutations
        let mut variants: Vec<Vec<String>> = vec![vec![]];
        for (h, w) in p.impls {
            let mut texts = vec![];
            for wp in perms(w) {
                texts.push(if wp.is_empty() { format!("{} {{ }}", h) } else { format!("{} where {} {{ }}", h, wp.join(", ")) });
            }
            let mut next = vec![];
            for v in &variants { for t in &texts { let mut v2 = v.clone(); v2.push(t.clone()); next.push(v2); } }
            variants = next;
        }
        let mut programs = vec![];
        for v in &variants { for ip in perms(v) { programs.push(format!("{} {}", p.decls, ip.join(" "))); programs.push(format!("{} {}", ip.join(" "), p.decls)); } }
        for g in p.goals {
            let mut seen: Vec<(String, String)> = vec![];
            for text in &programs {
                let db = ChalkDatabase::with(text, choice());
                let goal = lower(&db, g);
                let sol = choice().into_solver().solve(&db, &goal);
                let program = db.checked_program().unwrap();
                let a = chalk_integration::tls::set_current_program(&program, || show(&sol));
                if !seen.iter().any(|(s, _)| *s == a) { seen.push((a, text.clone())); }
            }
            if seen.len() > 1 {
                n += 1;
                eprintln!("[{}] program {} goal `{}`: {} different answers", label, pi, g, seen.len());
                for (a, t) in &seen { eprintln!("    {}\n        {}", a, t); }
            }
        }
    }
    n
}
#[test]
fn order_recursive() { let n = run(SolverChoice::recursive_default, "recursive"); assert_eq!(n, 0); }
#[test]
fn order_slg() { let n = run(SolverChoice::slg_default, "slg"); assert_eq!(n, 0); }
