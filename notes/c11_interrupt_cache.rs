//! Reproduction for known finding C11 (recursive solver, cache enabled): an interrupted solve
//! caches `Ambiguous` for the goal; a later, uninterrupted solve on the same solver returns that
//! cached value, while a fresh solver answers `Unique`.
use chalk_integration::db::ChalkDatabase;
use chalk_integration::interner::ChalkIr;
use chalk_integration::lowering::lower_goal;
use chalk_integration::query::LoweringDatabase;
use chalk_integration::SolverChoice;
use chalk_ir::{Goal, InEnvironment, UCanonical};
use chalk_solve::ext::*;
use chalk_solve::{RustIrDatabase, Solution};

fn show(s: &Option<Solution<ChalkIr>>) -> String {
    match s {
        Some(v) => v.display(ChalkIr).to_string(),
        None => "No possible solution".to_string(),
    }
}

fn lower(db: &ChalkDatabase, goal_text: &str) -> UCanonical<InEnvironment<Goal<ChalkIr>>> {
    let program = db.checked_program().unwrap();
    chalk_integration::tls::set_current_program(&program, || {
        let goal = lower_goal(&*chalk_parse::parse_goal(goal_text).unwrap(), &*program).unwrap();
        goal.into_peeled_goal(db.interner())
    })
}

#[test]
fn later_solve_after_interruption_equals_fresh_solve() {
    let program = "struct A {} trait Foo {} impl Foo for A {}";
    let goal_text = "A: Foo";
    let choice = SolverChoice::Recursive { overflow_depth: 100, caching_enabled: true, max_size: 30 };

    let fresh = {
        let db = ChalkDatabase::with(program, choice);
        let goal = lower(&db, goal_text);
        let p = db.checked_program().unwrap();
        chalk_integration::tls::set_current_program(&p, || show(&db.solve(&goal)))
    };
    assert_eq!(fresh, "Unique");

    let db = ChalkDatabase::with(program, choice);
    let goal = lower(&db, goal_text);
    let p = db.checked_program().unwrap();
    let (limited, later) = chalk_integration::tls::set_current_program(&p, || {
        let solver = db.solver();
        // the caller asks to stop at once
        let limited = solver.lock().unwrap().solve_limited(&db, &goal, &|| false);
        let later = solver.lock().unwrap().solve(&db, &goal);
        (show(&limited), show(&later))
    });
    eprintln!("interrupted: {limited}; later solve on the same solver: {later}; fresh solver: {fresh}");
    assert!(limited == fresh || limited.starts_with("Ambiguous"));
    assert_eq!(later, fresh, "a later solve on the same solver must equal a fresh solver");
}
