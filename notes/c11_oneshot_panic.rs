//! Observation (not decided by any check of /verif): recursive solver WITHOUT cache, callback false
//! exactly on its k-th invocation and true again afterwards.
use chalk_integration::db::ChalkDatabase;
use chalk_integration::interner::ChalkIr;
use chalk_integration::lowering::lower_goal;
use chalk_integration::query::LoweringDatabase;
use chalk_integration::SolverChoice;
use chalk_ir::{Goal, InEnvironment, UCanonical};
use chalk_solve::ext::*;
use chalk_solve::RustIrDatabase;
use std::cell::Cell;

fn lower(db: &ChalkDatabase, goal_text: &str) -> UCanonical<InEnvironment<Goal<ChalkIr>>> {
    let program = db.checked_program().unwrap();
    chalk_integration::tls::set_current_program(&program, || {
        let goal = lower_goal(&*chalk_parse::parse_goal(goal_text).unwrap(), &*program).unwrap();
        goal.into_peeled_goal(db.interner())
    })
}

#[test]
fn one_shot_interruption_does_not_panic() {
    let program = "struct A {} struct B {} struct Vec<T> {} trait Foo {} trait Bar {} impl Foo for A {} impl<T> Foo for Vec<T> where T: Bar {} ";
    let choice = SolverChoice::Recursive { overflow_depth: 100, caching_enabled: false, max_size: 30 };
    for goal_text in ["Vec<B>: Foo", "exists<T> { Vec<T>: Foo }", "A: Foo"] {
        for k in 1..30 {
            let db = ChalkDatabase::with(program, choice);
            let goal = lower(&db, goal_text);
            let p = db.checked_program().unwrap();
            let r = std::panic::catch_unwind(std::panic::AssertUnwindSafe(|| {
                chalk_integration::tls::set_current_program(&p, || {
                    let solver = db.solver();
                    let calls = Cell::new(0usize);
                    let s = solver.lock().unwrap().solve_limited(&db, &goal, &|| { calls.set(calls.get() + 1); calls.get() != k });
                    s.map(|s| s.display(ChalkIr).to_string())
                })
            }));
            assert!(r.is_ok(), "panic for goal `{}` with the callback false only on invocation #{}", goal_text, k);
        }
    }
}
