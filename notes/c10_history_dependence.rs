//! verif C10: answers must not depend on what the same solver solved before (recursive solver, cache on)
use chalk_integration::db::ChalkDatabase;
use chalk_integration::interner::ChalkIr;
use chalk_integration::lowering::lower_goal;
use chalk_integration::query::LoweringDatabase;
use chalk_integration::SolverChoice;
use chalk_ir::{Goal, InEnvironment, UCanonical};
use chalk_solve::ext::*;
use chalk_solve::{RustIrDatabase, Solution};

fn show(s: &Option<Solution<ChalkIr>>) -> String {
    match s { Some(v) => v.display(ChalkIr).to_string(), None => "No possible solution".to_string() }
}
fn lower(db: &ChalkDatabase, goal_text: &str) -> UCanonical<InEnvironment<Goal<ChalkIr>>> {
    let program = db.checked_program().unwrap();
    chalk_integration::tls::set_current_program(&program, || {
        let goal = lower_goal(&*chalk_parse::parse_goal(goal_text).unwrap(), &*program).unwrap();
        goal.into_peeled_goal(db.interner())
    })
}

const PROGRAMS: &[&str] = &[
    "trait Foo { } trait Bar { } struct A { } struct Vec<T> { }
     impl<T> Foo for Vec<T> where T: Bar { } impl Foo for A { } impl<T> Bar for T where T: Foo { }",
    "trait Foo { } trait Bar { } trait Baz { } struct A { } struct Vec<T> { }
     impl<T> Foo for Vec<T> where T: Baz, T: Bar { } impl Foo for A { } impl<T> Bar for T where T: Foo { } impl Baz for A { }",
];
const GOALS: &[&str] = &["exists<T> { T: Foo }", "exists<T> { T: Bar }", "Vec<A>: Foo", "A: Bar", "Vec<A>: Bar", "exists<T> { Vec<T>: Foo }"];

#[test]
fn later_solves_equal_fresh_solves() {
    let mut diffs = vec![];
    for (pi, program) in PROGRAMS.iter().enumerate() {
        for first in GOALS {
            for second in GOALS {
                let db = ChalkDatabase::with(program, SolverChoice::recursive_default());
                let g1 = lower(&db, first);
                let g2 = lower(&db, second);
                let mut used = SolverChoice::recursive_default().into_solver();
                let _ = used.solve(&db, &g1);
                let after = show(&used.solve(&db, &g2));
                let fresh = show(&SolverChoice::recursive_default().into_solver().solve(&db, &g2));
                if after != fresh {
                    diffs.push(format!("program {}: after `{}`, `{}` = {}   (fresh: {})", pi, first, second, after, fresh));
                }
            }
        }
    }
    for d in &diffs { eprintln!("{}", d); }
    assert!(diffs.is_empty(), "{} history-dependent answers", diffs.len());
}
