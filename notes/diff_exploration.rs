//! exploration: random small programs; fresh vs used solver, recursive vs SLG, cache on/off
use chalk_integration::db::ChalkDatabase;
use chalk_integration::interner::ChalkIr;
use chalk_integration::lowering::lower_goal;
use chalk_integration::query::LoweringDatabase;
use chalk_integration::SolverChoice;
use chalk_ir::{Goal, InEnvironment, UCanonical};
use chalk_solve::ext::*;
use chalk_solve::{RustIrDatabase, Solution};

struct Rng(u64);
impl Rng {
    fn next(&mut self) -> u64 { self.0 = self.0.wrapping_mul(6364136223846793005).wrapping_add(1442695040888963407); self.0 >> 33 }
    fn below(&mut self, n: usize) -> usize { (self.next() % n as u64) as usize }
    fn pick<'a, T>(&mut self, v: &'a [T]) -> &'a T { &v[self.below(v.len())] }
}
fn lower(db: &ChalkDatabase, goal_text: &str) -> Option<UCanonical<InEnvironment<Goal<ChalkIr>>>> {
    let program = db.checked_program().ok()?;
    chalk_integration::tls::set_current_program(&program, || {
        let goal = lower_goal(&*chalk_parse::parse_goal(goal_text).ok()?, &*program).ok()?;
        Some(goal.into_peeled_goal(db.interner()))
    })
}
fn show(db: &ChalkDatabase, s: &Option<Solution<ChalkIr>>) -> String {
    let program = db.checked_program().unwrap();
    chalk_integration::tls::set_current_program(&program, || match s { Some(v) => v.display(ChalkIr).to_string(), None => "No possible solution".to_string() })
}
const TRAITS: &[&str] = &["Foo", "Bar", "Baz"];
fn gen_program(r: &mut Rng, coinductive: bool) -> String {
    let mut s = String::new();
    for t in TRAITS { if coinductive { s += "#[coinductive] "; } s += &format!("trait {} {{ }} ", t); }
    s += "struct A { } struct B { } struct V<T> { } ";
    let n = 3 + r.below(4);
    for _ in 0..n {
        let tr = *r.pick(TRAITS);
        match r.below(5) {
            0 | 1 => { s += &format!("impl {} for {} {{ }} ", tr, r.pick(&["A", "B"])); }
            k => {
                let head = if k == 4 { "T" } else { "V<T>" };
                let nw = 1 + r.below(2);
                let mut w = vec![];
                for _ in 0..nw { let subj = if coinductive && k == 4 { "T" } else { *r.pick(&["T", "T", "V<T>"]) }; w.push(format!("{}: {}", subj, r.pick(TRAITS))); }
                s += &format!("impl<T> {} for {} where {} {{ }} ", tr, head, w.join(", "));
            }
        }
    }
    s
}
fn goals() -> Vec<String> {
    let mut g = vec![];
    for t in TRAITS {
        g.push(format!("exists<T> {{ T: {} }}", t));
        g.push(format!("A: {}", t));
        g.push(format!("V<B>: {}", t));
        g.push(format!("exists<T> {{ V<T>: {} }}", t));
        g.push(format!("forall<T> {{ T: {} }}", t));
        g.push(format!("not {{ V<A>: {} }}", t));
    }
    g.push("exists<T> { T: Foo, T: Bar }".into());
    g.push("forall<T> { if (T: Foo) { T: Bar } }".into());
    g.push("forall<T> { if (T: Baz) { V<T>: Foo } }".into());
    g
}
fn definite(a: &str) -> bool { a.starts_with("Unique") || a.starts_with("No possible") }

fn explore(seed0: u64, count: u64, coinductive: bool) -> usize {
    let mut findings = 0;
    let gs = goals();
    for seed in seed0..seed0 + count {
        let mut r = Rng(seed.wrapping_mul(0x9E3779B97F4A7C15) ^ 0xABCDEF);
        let text = gen_program(&mut r, coinductive);
        std::fs::write("/var/tmp/dev/explore_prog.txt", format!("seed {}\n{}\n", seed, text)).unwrap();
        let db = ChalkDatabase::with(&text, SolverChoice::slg_default());
        if db.checked_program().is_err() { continue; }
        let lowered: Vec<_> = gs.iter().filter_map(|g| lower(&db, g).map(|l| (g.clone(), l))).collect();
        let fresh = |c: fn() -> SolverChoice, l: &UCanonical<InEnvironment<Goal<ChalkIr>>>| {
            let r = std::panic::catch_unwind(std::panic::AssertUnwindSafe(|| show(&db, &c().into_solver().solve(&db, l))));
            r.unwrap_or_else(|_| "PANIC".to_string())
        };
        let mut fr = vec![]; let mut fs = vec![];
        for (g, l) in &lowered {
            std::fs::write(format!("/var/tmp/dev/explore_last_{}.txt", coinductive), format!("seed {} goal {}\n{}\n", seed, g, text)).unwrap();
            let a = fresh(SolverChoice::recursive_default, l);
            let b = fresh(SolverChoice::slg_default, l);
            if a == "PANIC" || b == "PANIC" { findings += 1; eprintln!("PANIC seed {} goal `{}` rec={} slg={}\n    {}", seed, g, a, b, text); }
            else if definite(&a) && definite(&b) && a != b { findings += 1; eprintln!("DISAGREE seed {} goal `{}`\n    rec: {}\n    slg: {}\n    {}", seed, g, a, b, text); }
            else if !g.contains("exists") && (!definite(&a) || !definite(&b)) { eprintln!("ambig-closed seed {} goal `{}` rec={} slg={}\n    {}", seed, g, a, b, text); }
            fr.push(a); fs.push(b);
        }
        if fr.iter().chain(fs.iter()).any(|a| a == "PANIC") { continue; }
        // history: one used solver of each kind solving all goals in a seed-dependent order, twice
        eprintln!("history seed {}", seed);
        for (label, choice, fresh_answers) in [("rec", SolverChoice::recursive_default as fn() -> SolverChoice, &fr), ("slg", SolverChoice::slg_default as fn() -> SolverChoice, &fs)] {
            let mut order: Vec<usize> = (0..lowered.len()).collect();
            for i in (1..order.len()).rev() { let j = r.below(i + 1); order.swap(i, j); }
            eprintln!("ORDER[{}] seed {}: {:?}", label, seed, order.iter().map(|&k| lowered[k].0.as_str()).collect::<Vec<_>>());
            let mut used = choice().into_solver();
            for round in 0..2 {
                for &i in &order {
                    std::fs::write("/var/tmp/dev/explore_hist.txt", format!("seed {} [{}] round {} goal {}\n{}\n", seed, label, round, lowered[i].0, text)).unwrap();
                    let a = match std::panic::catch_unwind(std::panic::AssertUnwindSafe(|| show(&db, &used.solve(&db, &lowered[i].1)))) { Ok(a) => a, Err(_) => { eprintln!("PANIC-in-history[{}] seed {} goal `{}`", label, seed, lowered[i].0); used = choice().into_solver(); continue; } };
                    if a != fresh_answers[i] {
                        findings += 1;
                        eprintln!("HISTORY[{}] seed {} round {} goal `{}`: used={} fresh={}\n    order {:?}\n    {}", label, seed, round, lowered[i].0, a, fresh_answers[i], order.iter().map(|&k| lowered[k].0.as_str()).collect::<Vec<_>>(), text);
                    }
                }
            }
        }
    }
    findings
}
fn big<F: FnOnce() -> usize + Send + 'static>(f: F) -> usize { std::thread::Builder::new().stack_size(256 << 20).spawn(f).unwrap().join().unwrap() }
fn n() -> u64 { std::env::var("N").ok().and_then(|s| s.parse().ok()).unwrap_or(300) }
#[test] fn inductive() { let s0: u64 = std::env::var("S0").ok().and_then(|s| s.parse().ok()).unwrap_or(0); assert_eq!(big(move || explore(s0, n(), false)), 0); }
#[test] fn coinductive() { assert_eq!(big(|| explore(100000, n(), true)), 0); }
