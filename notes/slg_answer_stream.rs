use chalk_integration::db::ChalkDatabase;
use chalk_integration::interner::ChalkIr;
use chalk_integration::lowering::lower_goal;
use chalk_integration::query::LoweringDatabase;
use chalk_integration::SolverChoice;
use chalk_ir::{Goal, InEnvironment, UCanonical};
use chalk_solve::ext::*;
use chalk_solve::{RustIrDatabase, SubstitutionResult};
fn lower(db: &ChalkDatabase, goal_text: &str) -> UCanonical<InEnvironment<Goal<ChalkIr>>> {
    let program = db.checked_program().unwrap();
    chalk_integration::tls::set_current_program(&program, || {
        let goal = lower_goal(&*chalk_parse::parse_goal(goal_text).unwrap(), &*program).unwrap();
        goal.into_peeled_goal(db.interner())
    })
}
#[test]
fn stream() {
    let text = std::env::var("PROGRAM").unwrap();
    let goal = std::env::var("GOAL").unwrap();
    let db = ChalkDatabase::with(&text, SolverChoice::slg_default());
    let g = lower(&db, &goal);
    let program = db.checked_program().unwrap();
    let mut solver = SolverChoice::slg_default().into_solver();
    for round in 0..2 {
        let mut n = 0;
        solver.solve_multiple(&db, &g, &mut |s, more| {
            chalk_integration::tls::set_current_program(&program, || match s {
                SubstitutionResult::Definite(v) => eprintln!("round {} answer {}: definite {} more={}", round, n, v.display(ChalkIr), more),
                SubstitutionResult::Ambiguous(v) => eprintln!("round {} answer {}: AMBIGUOUS {} more={}", round, n, v.display(ChalkIr), more),
                SubstitutionResult::Floundered => eprintln!("round {} answer {}: floundered", round, n),
            });
            n += 1;
            n < 6
        });
        let sol = solver.solve(&db, &g);
        chalk_integration::tls::set_current_program(&program, || eprintln!("round {} solve: {}", round, match &sol { Some(v) => v.display(ChalkIr).to_string(), None => "No".into() }));
    }
}
