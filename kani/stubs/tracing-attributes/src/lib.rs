use proc_macro::TokenStream;

#[proc_macro_attribute]
pub fn instrument(_attr: TokenStream, item: TokenStream) -> TokenStream {
    item
}
