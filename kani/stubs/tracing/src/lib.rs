//! No-op stand-in for `tracing` (see Cargo.toml).  The macros expand to nothing
//! and do not evaluate their arguments.
pub use tracing_attributes::instrument;

pub struct Span;
pub struct Entered;
impl Span {
    pub fn enter(&self) -> Entered {
        Entered
    }
    pub fn entered(self) -> Entered {
        Entered
    }
    pub fn in_scope<F: FnOnce() -> T, T>(&self, f: F) -> T {
        f()
    }
    pub fn none() -> Span {
        Span
    }
}

#[macro_export]
macro_rules! trace { ($($t:tt)*) => {{}}; }
#[macro_export]
macro_rules! debug { ($($t:tt)*) => {{}}; }
#[macro_export]
macro_rules! info { ($($t:tt)*) => {{}}; }
#[macro_export]
macro_rules! warn { ($($t:tt)*) => {{}}; }
#[macro_export]
macro_rules! error { ($($t:tt)*) => {{}}; }
#[macro_export]
macro_rules! span { ($($t:tt)*) => { $crate::Span }; }
#[macro_export]
macro_rules! trace_span { ($($t:tt)*) => { $crate::Span }; }
#[macro_export]
macro_rules! debug_span { ($($t:tt)*) => { $crate::Span }; }
#[macro_export]
macro_rules! info_span { ($($t:tt)*) => { $crate::Span }; }
