// Harness interner `VerifIr`: an instance of chalk's generic `Interner` used by
// Kani harnesses that cannot use chalk-integration's `ChalkIr` (which lives in a
// crate downstream of the code under test).  Mechanically derived from
// chalk-integration/src/interner.rs: Arc -> Box (no atomics for CBMC), ids are
// plain u32, no TLS debug hooks.  `intern_ty` computes the flags through the
// real `TyKind::compute_flags`, exactly as `ChalkIr::intern_ty` does.
#![allow(dead_code, unused_imports)]
use chalk_ir::interner::{HasInterner, Interner};
use chalk_ir::*;

#[derive(Debug, Copy, Clone, Hash, PartialOrd, Ord, PartialEq, Eq)]
pub struct VerifIr;

impl Interner for VerifIr {
    type InternedType = Box<TyData<VerifIr>>;
    type InternedLifetime = LifetimeData<VerifIr>;
    type InternedConst = Box<ConstData<VerifIr>>;
    type InternedConcreteConst = u32;
    type InternedGenericArg = GenericArgData<VerifIr>;
    type InternedGoal = Box<GoalData<VerifIr>>;
    type InternedGoals = Vec<Goal<VerifIr>>;
    type InternedSubstitution = Vec<GenericArg<VerifIr>>;
    type InternedProgramClause = ProgramClauseData<VerifIr>;
    type InternedProgramClauses = Vec<ProgramClause<VerifIr>>;
    type InternedQuantifiedWhereClauses = Vec<QuantifiedWhereClause<VerifIr>>;
    type InternedVariableKinds = Vec<VariableKind<VerifIr>>;
    type InternedCanonicalVarKinds = Vec<CanonicalVarKind<VerifIr>>;
    type InternedConstraints = Vec<InEnvironment<Constraint<VerifIr>>>;
    type InternedVariances = Vec<Variance>;
    type DefId = u32;
    type InternedAdtId = u32;
    type Identifier = u32;
    type FnAbi = u8;

























    fn intern_ty(self, kind: TyKind<VerifIr>) -> Box<TyData<VerifIr>> {
        let flags = kind.compute_flags(self);
        Box::new(TyData { kind, flags })
    }

    fn ty_data(self, ty: &Box<TyData<VerifIr>>) -> &TyData<Self> {
        ty
    }

    fn intern_lifetime(self, lifetime: LifetimeData<VerifIr>) -> LifetimeData<VerifIr> {
        lifetime
    }

    fn lifetime_data(self, lifetime: &LifetimeData<VerifIr>) -> &LifetimeData<VerifIr> {
        lifetime
    }

    fn intern_const(self, constant: ConstData<VerifIr>) -> Box<ConstData<VerifIr>> {
        Box::new(constant)
    }

    fn const_data(self, constant: &Box<ConstData<VerifIr>>) -> &ConstData<VerifIr> {
        constant
    }

    fn const_eq(self, _ty: &Box<TyData<VerifIr>>, c1: &u32, c2: &u32) -> bool {
        c1 == c2
    }

    fn intern_generic_arg(self, generic_arg: GenericArgData<VerifIr>) -> GenericArgData<VerifIr> {
        generic_arg
    }

    fn generic_arg_data(self, generic_arg: &GenericArgData<VerifIr>) -> &GenericArgData<VerifIr> {
        generic_arg
    }

    fn intern_goal(self, goal: GoalData<VerifIr>) -> Box<GoalData<VerifIr>> {
        Box::new(goal)
    }

    fn goal_data(self, goal: &Box<GoalData<VerifIr>>) -> &GoalData<VerifIr> {
        goal
    }

    fn intern_goals<E>(
        self,
        data: impl IntoIterator<Item = Result<Goal<VerifIr>, E>>,
    ) -> Result<Vec<Goal<VerifIr>>, E> {
        data.into_iter().collect()
    }

    fn goals_data(self, goals: &Vec<Goal<VerifIr>>) -> &[Goal<VerifIr>] {
        goals
    }

    fn intern_substitution<E>(
        self,
        data: impl IntoIterator<Item = Result<GenericArg<VerifIr>, E>>,
    ) -> Result<Vec<GenericArg<VerifIr>>, E> {
        data.into_iter().collect()
    }

    fn substitution_data(self, substitution: &Vec<GenericArg<VerifIr>>) -> &[GenericArg<VerifIr>] {
        substitution
    }

    fn intern_program_clause(self, data: ProgramClauseData<Self>) -> ProgramClauseData<Self> {
        data
    }

    fn program_clause_data(self, clause: &ProgramClauseData<Self>) -> &ProgramClauseData<Self> {
        clause
    }

    fn intern_program_clauses<E>(
        self,
        data: impl IntoIterator<Item = Result<ProgramClause<Self>, E>>,
    ) -> Result<Vec<ProgramClause<Self>>, E> {
        data.into_iter().collect()
    }

    fn program_clauses_data(self, clauses: &Vec<ProgramClause<Self>>) -> &[ProgramClause<Self>] {
        clauses
    }

    fn intern_quantified_where_clauses<E>(
        self,
        data: impl IntoIterator<Item = Result<QuantifiedWhereClause<Self>, E>>,
    ) -> Result<Self::InternedQuantifiedWhereClauses, E> {
        data.into_iter().collect()
    }

    fn quantified_where_clauses_data(
        self,
        clauses: &Self::InternedQuantifiedWhereClauses,
    ) -> &[QuantifiedWhereClause<Self>] {
        clauses
    }
    fn intern_generic_arg_kinds<E>(
        self,
        data: impl IntoIterator<Item = Result<VariableKind<VerifIr>, E>>,
    ) -> Result<Self::InternedVariableKinds, E> {
        data.into_iter().collect()
    }

    fn variable_kinds_data(
        self,
        variable_kinds: &Self::InternedVariableKinds,
    ) -> &[VariableKind<VerifIr>] {
        variable_kinds
    }

    fn intern_canonical_var_kinds<E>(
        self,
        data: impl IntoIterator<Item = Result<CanonicalVarKind<VerifIr>, E>>,
    ) -> Result<Self::InternedCanonicalVarKinds, E> {
        data.into_iter().collect()
    }

    fn canonical_var_kinds_data(
        self,
        canonical_var_kinds: &Self::InternedCanonicalVarKinds,
    ) -> &[CanonicalVarKind<VerifIr>] {
        canonical_var_kinds
    }

    fn intern_constraints<E>(
        self,
        data: impl IntoIterator<Item = Result<InEnvironment<Constraint<Self>>, E>>,
    ) -> Result<Self::InternedConstraints, E> {
        data.into_iter().collect()
    }

    fn constraints_data(
        self,
        constraints: &Self::InternedConstraints,
    ) -> &[InEnvironment<Constraint<Self>>] {
        constraints
    }

    fn intern_variances<E>(
        self,
        data: impl IntoIterator<Item = Result<Variance, E>>,
    ) -> Result<Self::InternedVariances, E> {
        data.into_iter().collect()
    }

    fn variances_data(self, variances: &Self::InternedVariances) -> &[Variance] {
        variances
    }
}


impl HasInterner for VerifIr {
    type Interner = VerifIr;
}
