// Mock `RustIrDatabase<VerifIr>`: every method is `unimplemented!()` except
// `interner()`.  Harnesses that use it only exercise code that never calls the
// database (Kani would report the `unimplemented!()` panic otherwise).
// `include!`d by harness modules after they have imported RustIrDatabase, the
// rust_ir types and chalk_ir::*.
#[derive(Debug)]
pub struct MockDb;

impl RustIrDatabase<VerifIr> for MockDb {
    fn custom_clauses(&self) -> Vec<ProgramClause<VerifIr>> { unimplemented!() }
    fn associated_ty_data(&self, _: AssocTypeId<VerifIr>) -> Arc<AssociatedTyDatum<VerifIr>> { unimplemented!() }
    fn trait_datum(&self, _: TraitId<VerifIr>) -> Arc<TraitDatum<VerifIr>> { unimplemented!() }
    fn adt_datum(&self, _: AdtId<VerifIr>) -> Arc<AdtDatum<VerifIr>> { unimplemented!() }
    fn coroutine_datum(&self, _: CoroutineId<VerifIr>) -> Arc<CoroutineDatum<VerifIr>> { unimplemented!() }
    fn coroutine_witness_datum(&self, _: CoroutineId<VerifIr>) -> Arc<CoroutineWitnessDatum<VerifIr>> { unimplemented!() }
    fn adt_repr(&self, _: AdtId<VerifIr>) -> Arc<AdtRepr<VerifIr>> { unimplemented!() }
    fn adt_size_align(&self, _: AdtId<VerifIr>) -> Arc<AdtSizeAlign> { unimplemented!() }
    fn fn_def_datum(&self, _: FnDefId<VerifIr>) -> Arc<FnDefDatum<VerifIr>> { unimplemented!() }
    fn impl_datum(&self, _: ImplId<VerifIr>) -> Arc<ImplDatum<VerifIr>> { unimplemented!() }
    fn associated_ty_from_impl(&self, _: ImplId<VerifIr>, _: AssocTypeId<VerifIr>) -> Option<AssociatedTyValueId<VerifIr>> { unimplemented!() }
    fn associated_ty_value(&self, _: AssociatedTyValueId<VerifIr>) -> Arc<AssociatedTyValue<VerifIr>> { unimplemented!() }
    fn opaque_ty_data(&self, _: OpaqueTyId<VerifIr>) -> Arc<OpaqueTyDatum<VerifIr>> { unimplemented!() }
    fn hidden_opaque_type(&self, _: OpaqueTyId<VerifIr>) -> Ty<VerifIr> { unimplemented!() }
    fn impls_for_trait(&self, _: TraitId<VerifIr>, _: &[GenericArg<VerifIr>], _: &CanonicalVarKinds<VerifIr>) -> Vec<ImplId<VerifIr>> { unimplemented!() }
    fn local_impls_to_coherence_check(&self, _: TraitId<VerifIr>) -> Vec<ImplId<VerifIr>> { unimplemented!() }
    fn impl_provided_for(&self, _: TraitId<VerifIr>, _: &TyKind<VerifIr>) -> bool { unimplemented!() }
    fn well_known_trait_id(&self, _: WellKnownTrait) -> Option<TraitId<VerifIr>> { unimplemented!() }
    fn well_known_assoc_type_id(&self, _: WellKnownAssocType) -> Option<AssocTypeId<VerifIr>> { unimplemented!() }
    fn program_clauses_for_env(&self, _: &Environment<VerifIr>) -> ProgramClauses<VerifIr> { unimplemented!() }
    fn interner(&self) -> VerifIr { VerifIr }
    fn is_object_safe(&self, _: TraitId<VerifIr>) -> bool { unimplemented!() }
    fn closure_kind(&self, _: ClosureId<VerifIr>, _: &Substitution<VerifIr>) -> ClosureKind { unimplemented!() }
    fn closure_inputs_and_output(&self, _: ClosureId<VerifIr>, _: &Substitution<VerifIr>) -> Binders<FnDefInputsAndOutputDatum<VerifIr>> { unimplemented!() }
    fn closure_upvars(&self, _: ClosureId<VerifIr>, _: &Substitution<VerifIr>) -> Binders<Ty<VerifIr>> { unimplemented!() }
    fn closure_fn_substitution(&self, _: ClosureId<VerifIr>, _: &Substitution<VerifIr>) -> Substitution<VerifIr> { unimplemented!() }
    fn unification_database(&self) -> &dyn UnificationDatabase<VerifIr> { unimplemented!() }
    fn discriminant_type(&self, _: Ty<VerifIr>) -> Ty<VerifIr> { unimplemented!() }
}
