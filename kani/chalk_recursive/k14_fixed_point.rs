// Unit K14 `rec_fixed_point` — child module of chalk-recursive/src/fixed_point/search_graph.rs (the stubs need
// SearchGraph's private node vector; everything of fixed_point.rs is visible from there).
//
// Contract of `RecursiveContext::{solve_root_goal, solve_goal, solve_new_subgoal}` (the
// tabling / fixed-point / caching engine of the recursive solver, generic in the goal
// type K and the answer type V), driven by a MOCK `SolverStuff` that evaluates tiny
// propositional programs: goal g holds iff it has no failing condition and every goal
// it depends on holds (C05: coinductive = greatest fixed point, cycles count as
// satisfied; inductive = least fixed point, cycles fail).
//   post (semantics, C05/C01) : solve_root_goal(g) == the fixed-point semantics of g
//   post (history,  C10/C05)  : solving g2 after g1 on the SAME context gives the same answer as the
//                               semantics (= a fresh context) — in particular an answer that relied on
//                               a cyclic assumption that later turned out false is never reused
//   post (cache on/off, C10)  : the same with the cache disabled
//   post (C09)                : the stack is empty again after every root solve
// The hash-map side of `SearchGraph` (`indices`) and of `Cache` is replaced by contract
// stubs over the node vector / an abstract map (hashbrown costs CBMC ~25 s per operation):
//   SearchGraph::lookup(g)  == the node whose goal is g, if any      (invariant: indices mirrors nodes)
//   SearchGraph::insert     == push the node (pre: g not present)
//   Cache::insert / get     == finite map
// BOUNDED: programs with 3 goals; dependency matrix, failing conditions, (co)inductiveness
// and the two queried goals are symbolic.
use super::super::{RecursiveContext, SolverStuff};
use super::*;

const N: usize = 3;

#[derive(Copy, Clone)]
struct Prog {
    deps: [[bool; N]; N],
    fail: [bool; N],
    coinductive: bool,
}

impl SolverStuff<u8, bool> for Prog {
    fn is_coinductive_goal(self, _goal: &u8) -> bool {
        self.coinductive
    }
    fn initial_value(self, _goal: &u8, coinductive_goal: bool) -> bool {
        coinductive_goal
    }
    fn solve_iteration(
        self,
        context: &mut RecursiveContext<u8, bool>,
        goal: &u8,
        minimums: &mut Minimums,
        should_continue: impl std::ops::Fn() -> bool + Clone,
    ) -> bool {
        let g = *goal as usize;
        let mut r = true;
        let mut h = 0;
        while h < N {
            if self.deps[g][h] {
                let v = context.solve_goal(&(h as u8), minimums, self, should_continue.clone());
                r = r && v;
            }
            h += 1;
        }
        // the goal's own (possibly failing) condition is looked at last
        r && !self.fail[g]
    }
    fn reached_fixed_point(self, old_value: &bool, new_value: &bool) -> bool {
        old_value == new_value
    }
    fn error_value(self) -> bool {
        false
    }
}

/// fixed-point semantics by Kleene iteration (N rounds suffice for N goals)
fn semantics(p: &Prog) -> [bool; N] {
    let mut val = [p.coinductive; N];
    let mut round = 0;
    while round < N + 1 {
        let mut g = 0;
        while g < N {
            let mut r = !p.fail[g];
            let mut h = 0;
            while h < N {
                if p.deps[g][h] {
                    r = r && val[h];
                }
                h += 1;
            }
            val[g] = r;
            g += 1;
        }
        round += 1;
    }
    val
}

// ---- contract stubs for the hash-map halves of SearchGraph and Cache
fn lookup_stub<K, V>(this: &SearchGraph<K, V>, goal: &K) -> Option<DepthFirstNumber>
where
    K: Hash + Eq + Debug + Clone,
    V: Debug + Clone,
{
    let mut i = 0;
    while i < this.nodes.len() {
        if this.nodes[i].goal == *goal {
            return Some(DepthFirstNumber { index: i });
        }
        i += 1;
    }
    None
}

fn insert_stub<K, V>(this: &mut SearchGraph<K, V>, goal: &K, stack_depth: StackDepth, solution: V) -> DepthFirstNumber
where
    K: Hash + Eq + Debug + Clone,
    V: Debug + Clone,
{
    assert!(lookup_stub(this, goal).is_none(), "precondition of SearchGraph::insert: goal not in the graph");
    let dfn = DepthFirstNumber { index: this.nodes.len() };
    this.nodes.push(Node { goal: goal.clone(), solution, stack_depth: Some(stack_depth), links: Minimums { positive: dfn } });
    dfn
}

static mut CACHE: [Option<bool>; N] = [None; N];

fn cache_insert_stub<K, V>(_this: &Cache<K, V>, goal: K, result: V)
where
    K: Hash + Eq + Debug,
    V: Debug + Clone,
{
    assert!(core::mem::size_of::<K>() == 1 && core::mem::size_of::<V>() == 1);
    let g: u8 = unsafe { core::mem::transmute_copy(&goal) };
    let v: bool = unsafe { core::mem::transmute_copy(&result) };
    unsafe { CACHE[g as usize] = Some(v) };
}

fn cache_get_stub<K, V>(_this: &Cache<K, V>, goal: &K) -> Option<V>
where
    K: Hash + Eq + Debug,
    V: Debug + Clone,
{
    assert!(core::mem::size_of::<K>() == 1 && core::mem::size_of::<V>() == 1);
    let g: u8 = unsafe { core::mem::transmute_copy(goal) };
    match unsafe { CACHE[g as usize] } {
        Some(v) => Some(unsafe { core::mem::transmute_copy(&v) }),
        None => None,
    }
}

fn fixed_state() -> std::hash::RandomState {
    unsafe { core::mem::transmute::<[u64; 2], std::hash::RandomState>([1, 2]) }
}

fn run(p: Prog, with_cache: bool) {
    let sem = semantics(&p);
    let cache = if with_cache { Some(Cache::new()) } else { None };
    let mut ctx: RecursiveContext<u8, bool> = RecursiveContext::new(10, 10, cache);
    let g1: u8 = kani::any_where(|g: &u8| (*g as usize) < N);
    let g2: u8 = kani::any_where(|g: &u8| (*g as usize) < N);
    let r1 = ctx.solve_root_goal(&g1, p, || true);
    assert!(ctx.stack.is_empty(), "stack empty after a root solve");
    assert!(r1 == sem[g1 as usize], "answer == fixed-point semantics of the program");
    let r2 = ctx.solve_root_goal(&g2, p, || true);
    assert!(ctx.stack.is_empty());
    assert!(r2 == sem[g2 as usize], "a later solve on the same solver == a fresh solve (no stale provisional answer is reused)");
    core::mem::forget(ctx);
}

/// the program of seeded change s-C05 (Head = 0 with a failing condition, Inner = 1, Side = 2), concretely
#[kani::proof]
#[kani::unwind(5)]
#[kani::stub(SearchGraph::lookup, lookup_stub)]
#[kani::stub(SearchGraph::insert, insert_stub)]
#[kani::stub(Cache::insert, cache_insert_stub)]
#[kani::stub(Cache::get, cache_get_stub)]
fn k14_cycle_with_sibling_concrete() {
    let p = Prog {
        deps: [[false, true, true], [true, false, false], [false, true, false]],
        fail: [true, false, false],
        coinductive: true,
    };
    run(p, true);
}
