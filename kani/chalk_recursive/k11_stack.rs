// Unit K11 `rec_stack` — child module of chalk-recursive/src/fixed_point/stack.rs.
//
// Contract of the recursive solver's stack (C09 "stays within its configured overflow
// depth", C05 "a cycle is rejected exactly when it mixes inductive and coinductive goals"):
//   push(c)  pre : len < overflow_depth          (at the limit the call aborts — see k11_push_at_limit_aborts)
//            post: returns depth == old len; len' == old len + 1 <= overflow_depth;
//                  new entry {coinductive_goal: c, cycle: false}; older entries untouched
//   pop(d)   pre : d is the top (d.depth + 1 == len); post: len' == len - 1, rest untouched
//   mixed_inductive_coinductive_cycle_from(d)
//            == (some entry in [d..] is coinductive) && (some entry in [d..] is inductive)
//   flag_cycle / read_and_reset_cycle_flag: read returns the old flag and leaves it false
// `overflow_depth` is symbolic; BOUNDED in the number of entries (4 quick / 6 thorough).
use super::*;

fn build(n: usize, overflow_depth: usize) -> (Stack, [bool; 8]) {
    let mut s = Stack::new(overflow_depth);
    assert!(s.is_empty());
    let mut flags = [false; 8];
    let mut i = 0;
    while i < n {
        let c: bool = kani::any();
        flags[i] = c;
        let d = s.push(c);
        assert!(d.depth == i, "push returns the depth of the new entry");
        assert!(s.entries.len() == i + 1 && s.entries.len() <= s.overflow_depth, "depth never exceeds the configured limit");
        assert!(s[d].coinductive_goal == c && !s[d].cycle);
        i += 1;
    }
    let mut j = 0;
    while j < n {
        assert!(s.entries[j].coinductive_goal == flags[j], "older entries untouched by later pushes");
        j += 1;
    }
    (s, flags)
}

fn stack_contract(max: usize) {
    let n: usize = kani::any_where(|n: &usize| *n >= 1 && *n <= max);
    let overflow_depth: usize = kani::any_where(|o: &usize| *o >= n);
    let (mut s, flags) = build(n, overflow_depth);

    // mixed cycle detection, for every start depth
    let d: usize = kani::any_where(|d: &usize| *d < n);
    let mut any_co = false;
    let mut any_ind = false;
    let mut j = d;
    while j < n {
        if flags[j] {
            any_co = true;
        } else {
            any_ind = true;
        }
        j += 1;
    }
    let mixed = s.mixed_inductive_coinductive_cycle_from(StackDepth { depth: d });
    assert!(mixed == (any_co && any_ind), "a cycle is mixed iff it contains a coinductive AND an inductive goal");
    kani::cover!(mixed);
    kani::cover!(!mixed && any_co && n > 1);

    // cycle flag protocol
    let top = StackDepth { depth: n - 1 };
    let set: bool = kani::any();
    if set {
        s[top].flag_cycle();
    }
    assert!(s[top].read_and_reset_cycle_flag() == set);
    assert!(!s[top].cycle && !s[top].read_and_reset_cycle_flag());

    // pop
    s.pop(top);
    assert!(s.entries.len() == n - 1);
    let mut j = 0;
    while j + 1 < n {
        assert!(s.entries[j].coinductive_goal == flags[j]);
        j += 1;
    }
}

#[kani::proof]
#[kani::unwind(6)]
fn k11_stack_n4() {
    stack_contract(4);
}

#[kani::proof]
#[kani::unwind(8)]
fn k11_stack_n6_thorough() {
    stack_contract(6);
}

/// at the limit `push` must not add an entry: the real code panics (Kani: abort)
#[kani::proof]
#[kani::unwind(5)]
#[kani::should_panic]
fn k11_push_at_limit_aborts() {
    let limit: usize = kani::any_where(|l: &usize| *l <= 3);
    let mut s = Stack::new(limit);
    let mut i = 0;
    while i < limit {
        s.push(kani::any());
        i += 1;
    }
    // len == overflow_depth: this push must abort
    s.push(kani::any());
}

/// popping anything but the top is rejected
#[kani::proof]
#[kani::unwind(5)]
#[kani::should_panic]
fn k11_pop_mismatch_aborts() {
    let mut s = Stack::new(10);
    s.push(true);
    s.push(false);
    s.pop(StackDepth { depth: 0 });
}
