// Unit K13 `coherence_priorities` — compiled as a child module of
// chalk-solve/src/coherence.rs (scratch copy) under cfg(kani).
//
// Contract of `CoherenceSolver::set_priorities` + the root loop of
// `specialization_priorities` on the real petgraph forest (C19):
//   pre : the forest is a DAG whose edges go from the less special to the more
//         special impl (what `build_specialization_forest` records)
//   post: (i)   no panic (no assertion, `expect`, index or overflow failure)
//         (ii)  every impl in the forest has a priority
//         (iii) for every edge u -> v, priority(v) > priority(u)
// Graph *shapes* are enumerated concretely by kani/gen_k13.py (every labelled
// DAG on <= 3 nodes; selected 4-node DAGs in the thorough tier): bounded in the
// number of impls, exhaustive below the bound.
use super::*;
use crate::rust_ir::*;
use chalk_ir::*;

#[path = "/verif/kani/common/verif_ir.rs"]
mod verif_ir;
use verif_ir::VerifIr;
include!("/verif/kani/common/mock_db.rs");

// `IndexMap::new()` seeds its hasher from the OS (a syscall Kani cannot model);
// the priority table itself is never touched through the stubbed `insert`.
fn fixed_state() -> std::hash::RandomState {
    unsafe { core::mem::transmute::<[u64; 2], std::hash::RandomState>([1, 2]) }
}

fn no_solver() -> Box<dyn Solver<VerifIr>> {
    unimplemented!()
}

// ---- contract stub for SpecializationPriorities::insert (modular step).
// The abstract view of the priority table is PRIO (indexed by impl id - 10).
// Two variants, selected by the driver from the signature of `insert` in the
// tree under check (`applicable_if` in the catalogue):
//   current code (`-> bool`):
//       post: stored(impl) == max(old stored(impl), p); result == "stored(impl) changed"
//   code before the C19 repair (`-> ()`):
//       pre : no priority stored for impl yet   (the real body asserts it)
//       post: stored(impl) == p
// The contract of the current variant is PROVED by Verus unit V15 on the verbatim text of
// `insert` (an earlier Kani harness against the real IndexMap needed > 25 minutes: dropped).
static mut PRIO: [Option<usize>; 8] = [None; 8];

fn insert_contract_stub<I: Interner>(
    _this: &mut SpecializationPriorities<I>,
    impl_id: ImplId<I>,
    p: SpecializationPriority,
) -> bool {
    // the only instantiation reachable from the harnesses is I = VerifIr (DefId = u32)
    assert!(core::mem::size_of::<I::DefId>() == 4);
    let id: u32 = unsafe { core::mem::transmute_copy(&impl_id.0) };
    let i = (id - 10) as usize;
    unsafe {
        match PRIO[i] {
            Some(old) if old >= p.0 => false,
            _ => {
                PRIO[i] = Some(p.0);
                true
            }
        }
    }
}

fn priorities_contract(n: usize, edges: &[(usize, usize)]) {
    let db = MockDb;
    let builder: &dyn Fn() -> Box<dyn Solver<VerifIr>> = &no_solver;
    let solver = CoherenceSolver::new(&db, builder, TraitId(0u32));

    // the forest, built with the same petgraph calls as build_specialization_forest
    let mut forest: Graph<ImplId<VerifIr>, ()> = DiGraph::new();
    let mut nodes = [NodeIndex::new(0); 4];
    let mut i = 0;
    while i < n {
        nodes[i] = forest.add_node(ImplId(10 + i as u32));
        i += 1;
    }
    let mut e = 0;
    while e < edges.len() {
        forest.update_edge(nodes[edges[e].0], nodes[edges[e].1], ());
        e += 1;
    }

    // root loop of `specialization_priorities`
    let mut result = SpecializationPriorities::<VerifIr>::new();
    for root_idx in forest.externals(Direction::Incoming) {
        solver.set_priorities(root_idx, &forest, 0, &mut result);
    }

    // (ii) total
    let mut i = 0;
    while i < n {
        assert!(unsafe { PRIO[i] }.is_some(), "every impl has a priority");
        i += 1;
    }
    // (iii) consistent with specialization
    let mut e = 0;
    while e < edges.len() {
        let less = unsafe { PRIO[edges[e].0] }.unwrap();
        let more = unsafe { PRIO[edges[e].1] }.unwrap();
        assert!(more > less, "the more special impl has the strictly higher priority");
        e += 1;
    }
}

include!("/verif/kani/chalk_solve/k13_cases.rs");
