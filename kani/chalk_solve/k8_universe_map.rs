// Unit K8 `solve_universe_map` — child module of chalk-solve/src/infer/ucanonicalize.rs.
//
// Contract of `UniverseMap::new`, `UniverseMapExt::{add, map_universe_to_canonical,
// map_universe_from_canonical}` (C16 "universe compression keeps the relative order of
// universes and can be undone"; C28 "uses no universe the query cannot name"):
//   invariant wf(m): m.universes strictly increasing and contains ROOT
//   add(u)   : wf preserved; u becomes a member; membership of every other universe unchanged
//   to_canonical : Some(c) <=> member; c.counter < len; strictly monotone on members
//   from_canonical(to_canonical(u)) == u for members; to_canonical(from_canonical(c)) == Some(c) for c < len
//   c >= len : from_canonical(c) is above every member and strictly monotone in c   (pre: no usize overflow)
// Invariant style: `new` establishes wf; `add` preserves it for EVERY wf map; the laws hold for EVERY wf
// map.  Complete in the universe values (symbolic usize); BOUNDED in the vector length (<= 3 universes;
// `add` on 3 universes only in the thorough tier).
use super::*;

fn wf(m: &UniverseMap) -> bool {
    let v = &m.universes;
    if v.is_empty() || v[0] != UniverseIndex::ROOT {
        return false;
    }
    let mut i = 1;
    while i < v.len() {
        if !(v[i - 1].counter < v[i].counter) {
            return false;
        }
        i += 1;
    }
    true
}

fn member(m: &UniverseMap, u: UniverseIndex) -> bool {
    let mut i = 0;
    while i < m.universes.len() {
        if m.universes[i] == u {
            return true;
        }
        i += 1;
    }
    false
}

/// any well-formed map with exactly `n` universes (values symbolic)
fn any_wf_map(n: usize) -> UniverseMap {
    let a: usize = kani::any();
    let b: usize = kani::any();
    kani::assume(0 < a && a < b);
    let r = UniverseIndex::ROOT;
    let universes = match n {
        1 => vec![r],
        2 => vec![r, UniverseIndex { counter: a }],
        _ => vec![r, UniverseIndex { counter: a }, UniverseIndex { counter: b }],
    };
    let m = UniverseMap { universes };
    assert!(wf(&m));
    m
}

/// `new` establishes the invariant
#[kani::proof]
#[kani::unwind(5)]
fn k8_new_is_wf() {
    let m = UniverseMap::new();
    assert!(wf(&m) && member(&m, UniverseIndex::ROOT) && m.universes.len() == 1);
}

/// `add` preserves the invariant and adds exactly the given universe (for every wf map of <= 3 universes)
fn add_contract(n: usize) {
    let mut m = any_wf_map(n);
    let u = UniverseIndex { counter: kani::any() };
    let probe = UniverseIndex { counter: kani::any() };
    let was_member = member(&m, probe);
    let u_was_member = member(&m, u);
    m.add(u);
    assert!(wf(&m), "add keeps the vector strictly increasing and rooted");
    assert!(member(&m, u), "the added universe is a member");
    assert!(probe == u || member(&m, probe) == was_member, "no other universe appears or disappears");
    assert!(m.universes.len() == if u_was_member { n } else { n + 1 });
    kani::cover!(u_was_member);
    kani::cover!(!u_was_member && m.universes[n].counter == u.counter); // appended at the end
    kani::cover!(n < 2 || (!u_was_member && m.universes[1].counter == u.counter)); // inserted in the middle
}

#[kani::proof]
#[kani::unwind(6)]
fn k8_add_len1() {
    add_contract(1);
}
#[kani::proof]
#[kani::unwind(6)]
fn k8_add_len2() {
    add_contract(2);
}
#[kani::proof]
#[kani::unwind(6)]
fn k8_add_len3_thorough() {
    add_contract(3);
}

/// the mapping laws, for every wf map of n universes
fn laws(n: usize) {
    let m = any_wf_map(n);
    let len = m.universes.len();
    let u = UniverseIndex { counter: kani::any() };
    let v = UniverseIndex { counter: kani::any() };
    let cu = m.map_universe_to_canonical(u);
    let cv = m.map_universe_to_canonical(v);
    // to_canonical is defined exactly on members, lands below len
    assert!(cu.is_some() == member(&m, u));
    if let Some(c) = cu {
        assert!(c.counter < len);
        assert!(m.map_universe_from_canonical(c) == u, "compression can be undone");
    }
    // order preserving and injective on members
    if let (Some(a), Some(b)) = (cu, cv) {
        assert!((u.counter < v.counter) == (a.counter < b.counter));
        assert!((u == v) == (a == b));
    }
    // the inverse direction
    let c = UniverseIndex { counter: kani::any() };
    let d = UniverseIndex { counter: kani::any() };
    let max = m.universes[len - 1].counter;
    kani::assume(c.counter <= d.counter);
    // precondition: `max + (d - len) + 1` does not overflow
    kani::assume(d.counter < len || (d.counter - len) as u128 + max as u128 + 1 <= usize::MAX as u128);
    let fc = m.map_universe_from_canonical(c);
    let fd = m.map_universe_from_canonical(d);
    if c.counter < len {
        assert!(member(&m, fc));
        assert!(m.map_universe_to_canonical(fc) == Some(c));
    } else {
        assert!(fc.counter > max, "out-of-range canonical universes map above every universe of the query");
    }
    assert!((c.counter < d.counter) == (fc.counter < fd.counter), "from_canonical is strictly monotone");
    kani::cover!(c.counter >= len);
    kani::cover!(c.counter < len && d.counter >= len);
}

#[kani::proof]
#[kani::unwind(6)]
fn k8_laws_len1() {
    laws(1);
}
#[kani::proof]
#[kani::unwind(6)]
fn k8_laws_len2() {
    laws(2);
}
#[kani::proof]
#[kani::unwind(6)]
fn k8_laws_len3() {
    laws(3);
}
