// Unit K9 `solve_infer_value` — child module of chalk-solve/src/infer/var.rs.
//
// Contract of `<InferenceValue as UnifyValue>::unify_values` (C14: merging two
// unknowns keeps the *minimum* universe, so the merged unknown can only name what
// both could; a bound value wins over an unbound one; the result does not depend
// on argument order).  `Bound, Bound` is outside the precondition (the code panics:
// callers must not union two bound variables).  Loop-free, full domain => complete.
use super::*;

#[path = "/verif/kani/common/verif_ir.rs"]
mod verif_ir;
use verif_ir::VerifIr;

fn any_value() -> InferenceValue<VerifIr> {
    if kani::any() {
        InferenceValue::Unbound(UniverseIndex { counter: kani::any() })
    } else {
        // a bound value: some lifetime (its shape is irrelevant to unify_values)
        let l: Lifetime<VerifIr> = if kani::any() { LifetimeData::Static.intern(VerifIr) } else { LifetimeData::Erased.intern(VerifIr) };
        InferenceValue::from_lifetime(VerifIr, l)
    }
}

#[kani::proof]
fn k9_unify_values() {
    let a = any_value();
    let b = any_value();
    let both_bound = matches!(a, InferenceValue::Bound(_)) && matches!(b, InferenceValue::Bound(_));
    kani::assume(!both_bound); // precondition
    let r = InferenceValue::unify_values(&a, &b);
    let r2 = InferenceValue::unify_values(&b, &a);
    assert!(r.is_ok() && r2.is_ok());
    let (r, r2) = (r.unwrap(), r2.unwrap());
    assert!(r == r2, "argument order is irrelevant");
    match (&a, &b) {
        (InferenceValue::Unbound(ua), InferenceValue::Unbound(ub)) => {
            kani::cover!(ua.counter < ub.counter);
            kani::cover!(ua.counter > ub.counter);
            let m = if ua.counter <= ub.counter { *ua } else { *ub };
            assert!(r == InferenceValue::Unbound(m), "the merged unknown lives in the minimum universe");
            if let InferenceValue::Unbound(ur) = &r {
                // it can see only what both could see
                assert!(ua.can_see(*ur) && ub.can_see(*ur));
            }
        }
        (InferenceValue::Bound(_), _) => assert!(r == a, "a bound value wins"),
        (_, InferenceValue::Bound(_)) => assert!(r == b, "a bound value wins"),
    }
}
