// Unit K10 `solve_canonicalizer_add` — child module of chalk-solve/src/infer/canonicalize.rs.
//
// Contract of `Canonicalizer::add` and of the unbound-variable leaf of
// `Canonicalizer::fold_inference_ty` / `fold_inference_lifetime` (C16: unknowns are
// numbered by FIRST OCCURRENCE, repeated unknowns — including unknowns that have
// been unified with each other — share one index, kinds/universes are recorded):
//   add(v)  : returns the position of the first entry equal to v; appends iff absent;
//             existing entries and their order untouched; idempotent;
//             max_universe raised to at least v's universe
//   fold_inference_ty(var) for an unbound var under `ob` binders:
//             == BoundVar ^ob.(index of var's union-find ROOT in free_vars)
// Uses the real InferenceTable / ena union-find (built with the `tracing` no-op
// stand-in).  BOUNDED: 3 inference variables, <= 3 occurrences.
use super::*;

#[path = "/verif/kani/common/verif_ir.rs"]
mod verif_ir;
use verif_ir::VerifIr;

fn pick(vars: &[super::super::EnaVariable<VerifIr>; 3]) -> (usize, super::super::EnaVariable<VerifIr>) {
    let i: usize = kani::any_where(|i: &usize| *i < 3);
    (i, vars[i])
}

#[kani::proof]
#[kani::unwind(6)]
fn k10_add_first_occurrence() {
    let mut table: InferenceTable<VerifIr> = InferenceTable::new();
    let u = [UniverseIndex { counter: kani::any() }, UniverseIndex { counter: kani::any() }, UniverseIndex { counter: kani::any() }];
    let vars = [table.new_variable(u[0]), table.new_variable(u[1]), table.new_variable(u[2])];
    let mut q = Canonicalizer { table: &mut table, free_vars: Vec::new(), max_universe: UniverseIndex::root(), interner: VerifIr };

    let (i1, v1) = pick(&vars);
    let (i2, v2) = pick(&vars);
    let (i3, v3) = pick(&vars);
    let k = |v| ParameterEnaVariable::new(VariableKind::Lifetime, v);

    let r1 = q.add(k(v1));
    assert!(r1 == 0 && q.free_vars.len() == 1);
    assert!(q.max_universe.counter >= u[i1].counter);
    let r2 = q.add(k(v2));
    assert!(r2 == if i2 == i1 { 0 } else { 1 }, "index of the first occurrence");
    assert!(q.free_vars.len() == if i2 == i1 { 1 } else { 2 }, "appended iff absent");
    assert!(*q.free_vars[0].skip_kind() == v1, "existing entries untouched");
    let len2 = q.free_vars.len();
    let r3 = q.add(k(v3));
    let expect3 = if i3 == i1 { 0 } else if i3 == i2 { 1 } else { len2 };
    assert!(r3 == expect3);
    assert!(q.free_vars.len() == if i3 == i1 || i3 == i2 { len2 } else { len2 + 1 });
    // idempotent
    let len3 = q.free_vars.len();
    assert!(q.add(k(v3)) == r3 && q.free_vars.len() == len3);
    // max_universe dominates every recorded variable's universe
    assert!(q.max_universe.counter >= u[i1].counter && q.max_universe.counter >= u[i2].counter && q.max_universe.counter >= u[i3].counter);
    kani::cover!(i1 != i2 && i2 != i3 && i1 != i3);
    kani::cover!(i1 == i3 && i1 != i2);
}

fn bound_var_of(t: &Ty<VerifIr>) -> Option<BoundVar> {
    match t.kind(VerifIr) {
        TyKind::BoundVar(b) => Some(*b),
        _ => None,
    }
}

#[kani::proof]
#[kani::unwind(6)]
fn k10_unified_unknowns_share_an_index() {
    let mut table: InferenceTable<VerifIr> = InferenceTable::new();
    let vars = [table.new_variable(UniverseIndex::ROOT), table.new_variable(UniverseIndex::ROOT), table.new_variable(UniverseIndex::ROOT)];
    // unify ?a with ?b (two of the three, symbolic choice)
    let (ia, va) = pick(&vars);
    let (ib, vb) = pick(&vars);
    table.unify.unify_var_var(va, vb).expect("two unbound variables");
    let ob: u32 = kani::any_where(|d: &u32| *d < 1000);
    let mut q = Canonicalizer { table: &mut table, free_vars: Vec::new(), max_universe: UniverseIndex::root(), interner: VerifIr };
    let (i1, v1) = pick(&vars);
    let (i2, v2) = pick(&vars);
    let t1 = TypeFolder::fold_inference_ty(&mut q, v1.into(), TyVariableKind::General, DebruijnIndex::new(ob));
    let t2 = TypeFolder::fold_inference_ty(&mut q, v2.into(), TyVariableKind::General, DebruijnIndex::new(ob));
    let (b1, b2) = (bound_var_of(&t1), bound_var_of(&t2));
    assert!(b1.is_some() && b2.is_some());
    let (b1, b2) = (b1.unwrap(), b2.unwrap());
    assert!(b1.debruijn.depth() == ob && b2.debruijn.depth() == ob, "bound at the canonical binder, seen from under `ob` binders");
    assert!(b1.index == 0, "first occurrence gets index 0");
    let same_class = i1 == i2 || ((i1 == ia || i1 == ib) && (i2 == ia || i2 == ib));
    assert!((b2.index == 0) == same_class, "same unknown (up to unification) <=> same index");
    assert!(b2.index <= 1);
    kani::cover!(same_class && i1 != i2);
    kani::cover!(!same_class);
}
