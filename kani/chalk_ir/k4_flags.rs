// Unit K4 `ir_flags` — child module of chalk-ir/src/lib.rs (scratch copy).
//
// Contract of `TyKind::compute_flags` and its private helpers (`Lifetime`,
// `GenericArg`, `AliasTy`, `Substitution`), C26.  The real code is ONE-LEVEL:
// it reads the cached `flags` of child types.  So the contract is
//
//     compute_flags(kind) & OCC  ==  local(kind) | U { flags(child) & OCC : child type of kind }
//                                              | U { lt_flags(l) : lifetime l directly in kind }
//                                              | U { ct_flags(c) : const c directly in kind }
//
// where OCC are the occurrence flags (everything except STILL_FURTHER_SPECIALIZABLE,
// which the property does not speak about) and `local`, `lt_flags`, `ct_flags` are
// the tables below, written from the flag documentation (lib.rs, `TypeFlags`):
//   HAS_TY_INFER        <- TyKind::InferenceVar        HAS_TY_PLACEHOLDER <- TyKind::Placeholder
//   HAS_TY_PROJECTION   <- AliasTy::Projection         HAS_TY_OPAQUE      <- AliasTy::Opaque
//   HAS_ERROR           <- TyKind::Error
//   HAS_CT_INFER / HAS_CT_PLACEHOLDER <- ConstValue::InferenceVar / Placeholder
//   lifetimes: InferenceVar -> RE_INFER|FREE_LOCAL_REGIONS|FREE_REGIONS, Placeholder ->
//              RE_PLACEHOLDER|FREE_LOCAL_REGIONS|FREE_REGIONS, Static -> FREE_REGIONS,
//              BoundVar -> RE_LATE_BOUND, Erased -> RE_ERASED, Error -> RE_ERROR
// Child types carry ARBITRARY cached flags (kani::any::<u16>()); every variant of
// TyKind, LifetimeData, ConstValue, GenericArgData, WhereClause is covered.
// Together with `intern_ty` storing `compute_flags` (k4_intern_ty_stores_flags) the
// whole-type statement follows by structural induction (Verus lemma V0).
// (every harness carries an unwind bound: CBMC explores all match arms of compute_flags
// symbolically, including the `Dyn` arm's loop, whatever the variant under test.)
// Bounded only in list lengths: substitutions <= 2 arguments, dyn bounds <= 1 clause.
use super::*;

#[path = "/verif/kani/common/verif_ir.rs"]
mod verif_ir;
use verif_ir::VerifIr;

const I: VerifIr = VerifIr;

/// `TyKind`'s drop glue is recursive (Box<TyData> -> TyKind -> ..); CBMC would have to
/// unwind it, which is what makes every harness that drops a type time out.  No
/// value built here is ever dropped.
fn check_kind(kind: TyKind<VerifIr>, spec: u16) {
    let kind = core::mem::ManuallyDrop::new(kind);
    assert!(occ(kind.compute_flags(I)) == spec);
}

fn occ(f: TypeFlags) -> u16 {
    f.bits() & !TypeFlags::STILL_FURTHER_SPECIALIZABLE.bits()
}

/// a child type with arbitrary cached flags (its kind is irrelevant to the one-level contract)
fn child(flags: u16) -> Ty<VerifIr> {
    Ty { interned: Box::new(TyData { kind: TyKind::Str, flags: TypeFlags::from_bits_retain(flags) }) }
}

fn any_lifetime() -> (Lifetime<VerifIr>, u16) {
    let k: u8 = kani::any_where(|k: &u8| *k < 6);
    let bv = BoundVar::new(DebruijnIndex::new(kani::any()), kani::any());
    let ph = PlaceholderIndex { ui: UniverseIndex { counter: kani::any() }, idx: kani::any() };
    let (d, f) = match k {
        0 => (LifetimeData::BoundVar(bv), TypeFlags::HAS_RE_LATE_BOUND),
        1 => (
            LifetimeData::InferenceVar(InferenceVar::from(kani::any::<u32>())),
            TypeFlags::HAS_RE_INFER | TypeFlags::HAS_FREE_LOCAL_REGIONS | TypeFlags::HAS_FREE_REGIONS,
        ),
        2 => (
            LifetimeData::Placeholder(ph),
            TypeFlags::HAS_RE_PLACEHOLDER | TypeFlags::HAS_FREE_LOCAL_REGIONS | TypeFlags::HAS_FREE_REGIONS,
        ),
        3 => (LifetimeData::Static, TypeFlags::HAS_FREE_REGIONS),
        4 => (LifetimeData::Erased, TypeFlags::HAS_RE_ERASED),
        _ => (LifetimeData::Error, TypeFlags::HAS_RE_ERROR),
    };
    (d.intern(I), f.bits())
}

fn any_const() -> (Const<VerifIr>, u16) {
    let tyf: u16 = kani::any();
    let k: u8 = kani::any_where(|k: &u8| *k < 4);
    let bv = BoundVar::new(DebruijnIndex::new(kani::any()), kani::any());
    let ph = PlaceholderIndex { ui: UniverseIndex { counter: kani::any() }, idx: kani::any() };
    let (v, f) = match k {
        0 => (ConstValue::BoundVar(bv), 0),
        1 => (ConstValue::InferenceVar(InferenceVar::from(kani::any::<u32>())), TypeFlags::HAS_CT_INFER.bits()),
        2 => (ConstValue::Placeholder(ph), TypeFlags::HAS_CT_PLACEHOLDER.bits()),
        _ => (ConstValue::Concrete(ConcreteConst { interned: kani::any::<u32>() }), 0),
    };
    (ConstData { ty: child(tyf), value: v }.intern(I), (tyf & !TypeFlags::STILL_FURTHER_SPECIALIZABLE.bits()) | f)
}

fn any_generic_arg() -> (GenericArg<VerifIr>, u16) {
    let k: u8 = kani::any_where(|k: &u8| *k < 3);
    match k {
        0 => {
            let f: u16 = kani::any();
            (GenericArgData::Ty(child(f)).intern(I), f & !TypeFlags::STILL_FURTHER_SPECIALIZABLE.bits())
        }
        1 => {
            let (l, f) = any_lifetime();
            (GenericArgData::Lifetime(l).intern(I), f)
        }
        _ => {
            let (c, f) = any_const();
            (GenericArgData::Const(c).intern(I), f)
        }
    }
}

fn any_subst() -> (Substitution<VerifIr>, u16) {
    let n: u8 = kani::any_where(|n: &u8| *n <= 2);
    let mut v: Vec<GenericArg<VerifIr>> = Vec::with_capacity(2);
    let mut f = 0u16;
    if n >= 1 {
        let (a, fa) = any_generic_arg();
        v.push(a);
        f |= fa;
    }
    if n >= 2 {
        let (a, fa) = any_generic_arg();
        v.push(a);
        f |= fa;
    }
    (Substitution { interned: v }, f)
}

// ---------------------------------------------------------------- helpers' contracts
#[kani::proof]
#[kani::unwind(4)]
fn k4_lifetime_flags() {
    let (l, spec) = any_lifetime();
    let l = core::mem::ManuallyDrop::new(l);
    assert!(l.compute_flags(I).bits() == spec);
}

#[kani::proof]
#[kani::unwind(4)]
fn k4_generic_arg_flags() {
    let (a, spec) = any_generic_arg();
    let a = core::mem::ManuallyDrop::new(a);
    assert!(occ(a.compute_flags(I)) == spec);
}

#[kani::proof]
#[kani::unwind(4)]
fn k4_substitution_flags() {
    let (s, spec) = any_subst();
    let s = core::mem::ManuallyDrop::new(s);
    kani::cover!(s.len(I) == 2);
    assert!(occ(s.compute_flags(I)) == spec);
}

#[kani::proof]
#[kani::unwind(4)]
fn k4_alias_flags() {
    let (s, spec) = any_subst();
    let a = if kani::any() {
        (AliasTy::Projection(ProjectionTy { associated_ty_id: AssocTypeId(kani::any::<u32>()), substitution: s }), TypeFlags::HAS_TY_PROJECTION.bits())
    } else {
        (AliasTy::Opaque(OpaqueTy { opaque_ty_id: OpaqueTyId(kani::any::<u32>()), substitution: s }), TypeFlags::HAS_TY_OPAQUE.bits())
    };
    let al = core::mem::ManuallyDrop::new(a.0);
    assert!(occ(al.compute_flags(I)) == (a.1 | spec));
}

// ---------------------------------------------------------------- TyKind, per variant
#[kani::proof]
#[kani::unwind(4)]
fn k4_tykind_with_substitution() {
    // Adt, AssociatedType, Tuple, OpaqueType, FnDef, Closure, Coroutine, CoroutineWitness, Function:
    // applications of a rigid constructor: exactly the union over the arguments
    let (s, spec) = any_subst();
    let id: u32 = kani::any();
    let k: u8 = kani::any_where(|k: &u8| *k < 9);
    let kind: TyKind<VerifIr> = match k {
        0 => TyKind::Adt(AdtId(id), s),
        1 => TyKind::AssociatedType(AssocTypeId(id), s),
        2 => TyKind::Tuple(kani::any(), s),
        3 => TyKind::OpaqueType(OpaqueTyId(id), s),
        4 => TyKind::FnDef(FnDefId(id), s),
        5 => TyKind::Closure(ClosureId(id), s),
        6 => TyKind::Coroutine(CoroutineId(id), s),
        7 => TyKind::CoroutineWitness(CoroutineId(id), s),
        _ => TyKind::Function(FnPointer {
            num_binders: kani::any(),
            sig: FnSig { abi: kani::any::<u8>(), safety: Safety::Safe, variadic: kani::any() },
            substitution: FnSubst(s),
        }),
    };
    kani::cover!(k == 8);
    kani::cover!(k == 3);
    check_kind(kind, spec);
}

#[kani::proof]
#[kani::unwind(4)]
fn k4_tykind_leaves() {
    let k: u8 = kani::any_where(|k: &u8| *k < 8);
    let ph = PlaceholderIndex { ui: UniverseIndex { counter: kani::any() }, idx: kani::any() };
    let (kind, spec): (TyKind<VerifIr>, u16) = match k {
        0 => (TyKind::Scalar(Scalar::Bool), 0),
        1 => (TyKind::Str, 0),
        2 => (TyKind::Never, 0),
        3 => (TyKind::Foreign(ForeignDefId(kani::any::<u32>())), 0),
        4 => (TyKind::Error, TypeFlags::HAS_ERROR.bits()),
        5 => (TyKind::Placeholder(ph), TypeFlags::HAS_TY_PLACEHOLDER.bits()),
        6 => (TyKind::BoundVar(BoundVar::new(DebruijnIndex::new(kani::any()), kani::any())), 0),
        _ => (TyKind::InferenceVar(InferenceVar::from(kani::any::<u32>()), TyVariableKind::General), TypeFlags::HAS_TY_INFER.bits()),
    };
    check_kind(kind, spec);
}

#[kani::proof]
#[kani::unwind(4)]
fn k4_tykind_pointers() {
    // Slice, Raw, Ref, Array
    let f: u16 = kani::any();
    let fo = f & !TypeFlags::STILL_FURTHER_SPECIALIZABLE.bits();
    let k: u8 = kani::any_where(|k: &u8| *k < 4);
    let (kind, spec): (TyKind<VerifIr>, u16) = match k {
        0 => (TyKind::Slice(child(f)), fo),
        1 => (TyKind::Raw(Mutability::Mut, child(f)), fo),
        2 => {
            let (l, lf) = any_lifetime();
            (TyKind::Ref(Mutability::Not, l, child(f)), fo | lf)
        }
        _ => {
            let (c, cf) = any_const();
            (TyKind::Array(child(f), c), fo | cf)
        }
    };
    check_kind(kind, spec);
}

#[kani::proof]
#[kani::unwind(4)]
fn k4_tykind_alias() {
    let (s, spec) = any_subst();
    let (kind, local): (TyKind<VerifIr>, u16) = if kani::any() {
        (TyKind::Alias(AliasTy::Projection(ProjectionTy { associated_ty_id: AssocTypeId(kani::any::<u32>()), substitution: s })), TypeFlags::HAS_TY_PROJECTION.bits())
    } else {
        (TyKind::Alias(AliasTy::Opaque(OpaqueTy { opaque_ty_id: OpaqueTyId(kani::any::<u32>()), substitution: s })), TypeFlags::HAS_TY_OPAQUE.bits())
    };
    check_kind(kind, local | spec);
}

#[kani::proof]
#[kani::unwind(4)]
fn k4_tykind_dyn() {
    // dyn with 0 or 1 bound of each WhereClause shape
    let (dl, dlf) = any_lifetime();
    let n: u8 = kani::any_where(|n: &u8| *n <= 1);
    let mut clauses: Vec<QuantifiedWhereClause<VerifIr>> = Vec::with_capacity(1);
    let mut spec = dlf;
    if n == 1 {
        let k: u8 = kani::any_where(|k: &u8| *k < 4);
        let wc: WhereClause<VerifIr> = match k {
            0 => {
                let (s, sf) = any_subst();
                spec |= sf;
                WhereClause::Implemented(TraitRef { trait_id: TraitId(kani::any::<u32>()), substitution: s })
            }
            1 => {
                let (s, sf) = any_subst();
                let tf: u16 = kani::any();
                spec |= sf | TypeFlags::HAS_TY_PROJECTION.bits() | (tf & !TypeFlags::STILL_FURTHER_SPECIALIZABLE.bits());
                WhereClause::AliasEq(AliasEq {
                    alias: AliasTy::Projection(ProjectionTy { associated_ty_id: AssocTypeId(kani::any::<u32>()), substitution: s }),
                    ty: child(tf),
                })
            }
            2 => {
                let (a, af) = any_lifetime();
                let (b, bf) = any_lifetime();
                spec |= af | bf;
                WhereClause::LifetimeOutlives(LifetimeOutlives { a, b })
            }
            _ => {
                let (l, lf) = any_lifetime();
                let tf: u16 = kani::any();
                spec |= lf | (tf & !TypeFlags::STILL_FURTHER_SPECIALIZABLE.bits());
                WhereClause::TypeOutlives(TypeOutlives { ty: child(tf), lifetime: l })
            }
        };
        clauses.push(Binders::new(VariableKinds { interned: Vec::new() }, wc));
        kani::cover!(k == 1);
    }
    let bounds = Binders::new(
        VariableKinds { interned: Vec::new() },
        QuantifiedWhereClauses { interned: clauses },
    );
    let kind: TyKind<VerifIr> = TyKind::Dyn(DynTy { bounds, lifetime: dl });
    check_kind(kind, spec);
}

// ---------------------------------------------------------------- the invariant is established by interning
#[kani::proof]
#[kani::unwind(4)]
fn k4_intern_ty_stores_flags() {
    // `Interner::intern_ty` (same text in ChalkIr and VerifIr) stores exactly compute_flags(kind)
    let f: u16 = kani::any();
    let kind: TyKind<VerifIr> = TyKind::Ref(Mutability::Not, any_lifetime().0, child(f));
    let expected = kind.compute_flags(I);
    let t = core::mem::ManuallyDrop::new(kind.intern(I));
    assert!(t.data(I).flags == expected);
}
