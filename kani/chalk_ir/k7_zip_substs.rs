// Unit K7 `ir_zip_substs` — child module of chalk-ir/src/zip.rs.
//
// Contract of the default method `Zipper::zip_substs` (C29 "each argument position is
// related at ambient ∘ declared variance", C14), driven with a RECORDING zipper:
//   pre : a.len() == b.len(); variances (if given) has at least that many entries
//   post: the i-th pair of arguments is related at ambient.xform(variances[i])
//         (Invariant when no variances are declared), in order, each exactly once;
//         the first failing position stops the zip and the error is returned;
//         nothing is related after a failure
// Arguments are lifetimes (leaves), so the recording `zip_lifetimes` sees every call.
// BOUNDED: <= 3 arguments.
use super::*;

#[path = "/verif/kani/common/verif_ir.rs"]
mod verif_ir;
use verif_ir::VerifIr;
const I: VerifIr = VerifIr;

#[derive(Debug)]
struct Db;
impl UnificationDatabase<VerifIr> for Db {
    fn fn_def_variance(&self, _: FnDefId<VerifIr>) -> Variances<VerifIr> {
        unimplemented!()
    }
    fn adt_variance(&self, _: AdtId<VerifIr>) -> Variances<VerifIr> {
        unimplemented!()
    }
}

struct Recorder {
    seen: [Option<Variance>; 4],
    count: usize,
    fail_at: usize,
    db: Db,
}

impl Zipper<VerifIr> for Recorder {
    fn zip_tys(&mut self, _: Variance, _: &Ty<VerifIr>, _: &Ty<VerifIr>) -> Fallible<()> {
        unimplemented!()
    }
    fn zip_lifetimes(&mut self, variance: Variance, _: &Lifetime<VerifIr>, _: &Lifetime<VerifIr>) -> Fallible<()> {
        let k = self.count;
        self.seen[k] = Some(variance);
        self.count += 1;
        if k == self.fail_at {
            Err(NoSolution)
        } else {
            Ok(())
        }
    }
    fn zip_consts(&mut self, _: Variance, _: &Const<VerifIr>, _: &Const<VerifIr>) -> Fallible<()> {
        unimplemented!()
    }
    fn zip_binders<T>(&mut self, _: Variance, _: &Binders<T>, _: &Binders<T>) -> Fallible<()>
    where
        T: Clone + HasInterner<Interner = VerifIr> + Zip<VerifIr> + TypeFoldable<VerifIr>,
    {
        unimplemented!()
    }
    fn interner(&self) -> VerifIr {
        VerifIr
    }
    fn unification_database(&self) -> &dyn UnificationDatabase<VerifIr> {
        &self.db
    }
}

fn any_variance() -> Variance {
    match kani::any::<u8>() % 3 {
        0 => Variance::Covariant,
        1 => Variance::Invariant,
        _ => Variance::Contravariant,
    }
}
fn lt() -> GenericArg<VerifIr> {
    GenericArgData::Lifetime(LifetimeData::Static.intern(I)).intern(I)
}
/// the standard variance composition (independent restatement; `xform` itself is unit K1/K3)
fn compose(a: Variance, b: Variance) -> Variance {
    if a == Variance::Invariant || b == Variance::Invariant {
        Variance::Invariant
    } else if a == b {
        Variance::Covariant
    } else {
        Variance::Contravariant
    }
}

#[kani::proof]
#[kani::unwind(5)]
fn k7_zip_substs_positions() {
    let n: usize = kani::any_where(|n: &usize| *n <= 3);
    let a = [lt(), lt(), lt()];
    let b = [lt(), lt(), lt()];
    let declared = [any_variance(), any_variance(), any_variance()];
    let with_variances: bool = kani::any();
    let ambient = any_variance();
    let fail_at: usize = kani::any_where(|k: &usize| *k <= 3);
    let mut z = Recorder { seen: [None; 4], count: 0, fail_at, db: Db };
    let vs = if with_variances { Some(Variances::from_iter(I, declared)) } else { None };
    let vs = core::mem::ManuallyDrop::new(vs);
    let r = z.zip_substs(ambient, (*vs).clone(), &a[..n], &b[..n]);

    kani::cover!(r.is_ok() && n == 3);
    kani::cover!(r.is_err() && fail_at == 1);
    if fail_at < n {
        assert!(r.is_err(), "the error of the failing position is returned");
        assert!(z.count == fail_at + 1, "nothing is related after a failure");
    } else {
        assert!(r.is_ok());
        assert!(z.count == n, "every position related exactly once");
    }
    let mut i = 0;
    while i < z.count {
        let expect = if with_variances { compose(ambient, declared[i]) } else { Variance::Invariant };
        assert!(z.seen[i] == Some(expect), "position i related at ambient ∘ declared[i]");
        i += 1;
    }
}
