// Unit K7 `ir_zip_substs` — child module of chalk-ir/src/zip.rs.
//
// Contract of the default method `Zipper::zip_substs` (C29 "each argument position is
// related at ambient ∘ declared variance", C14), driven with a RECORDING zipper:
//   pre : a.len() == b.len(); variances (if given) has at least that many entries
//   post: the i-th pair of arguments is related at ambient.xform(variances[i])
//         (Invariant when no variances are declared), in order, each exactly once;
//         the first failing position stops the zip and the error is returned;
//         nothing is related after a failure
// Arguments are lifetimes (leaves), so the recording `zip_lifetimes` sees every call.
// BOUNDED: <= 3 arguments.
use super::*;

#[path = "/verif/kani/common/verif_ir.rs"]
mod verif_ir;
use verif_ir::VerifIr;
const I: VerifIr = VerifIr;

#[derive(Debug)]
struct Db;
impl UnificationDatabase<VerifIr> for Db {
    fn fn_def_variance(&self, _: FnDefId<VerifIr>) -> Variances<VerifIr> {
        unimplemented!()
    }
    fn adt_variance(&self, _: AdtId<VerifIr>) -> Variances<VerifIr> {
        unimplemented!()
    }
}

struct Recorder {
    seen: [Option<Variance>; 4],
    count: usize,
    fail_at: usize,
    db: Db,
}

impl Zipper<VerifIr> for Recorder {
    fn zip_tys(&mut self, _: Variance, _: &Ty<VerifIr>, _: &Ty<VerifIr>) -> Fallible<()> {
        unimplemented!()
    }
    fn zip_lifetimes(&mut self, variance: Variance, _: &Lifetime<VerifIr>, _: &Lifetime<VerifIr>) -> Fallible<()> {
        let k = self.count;
        self.seen[k] = Some(variance);
        self.count += 1;
        if k == self.fail_at {
            Err(NoSolution)
        } else {
            Ok(())
        }
    }
    fn zip_consts(&mut self, _: Variance, _: &Const<VerifIr>, _: &Const<VerifIr>) -> Fallible<()> {
        unimplemented!()
    }
    fn zip_binders<T>(&mut self, _: Variance, _: &Binders<T>, _: &Binders<T>) -> Fallible<()>
    where
        T: Clone + HasInterner<Interner = VerifIr> + Zip<VerifIr> + TypeFoldable<VerifIr>,
    {
        unimplemented!()
    }
    fn interner(&self) -> VerifIr {
        VerifIr
    }
    fn unification_database(&self) -> &dyn UnificationDatabase<VerifIr> {
        &self.db
    }
}

fn any_variance() -> Variance {
    match kani::any::<u8>() % 3 {
        0 => Variance::Covariant,
        1 => Variance::Invariant,
        _ => Variance::Contravariant,
    }
}
fn lt() -> GenericArg<VerifIr> {
    GenericArgData::Lifetime(LifetimeData::Static.intern(I)).intern(I)
}
/// the standard variance composition (independent restatement; `xform` itself is unit K1/K3)
fn compose(a: Variance, b: Variance) -> Variance {
    if a == Variance::Invariant || b == Variance::Invariant {
        Variance::Invariant
    } else if a == b {
        Variance::Covariant
    } else {
        Variance::Contravariant
    }
}

/// the contract, for a CONCRETE number of arguments and a fixed choice of "variances declared or not"
/// (the symbolic-`n` version of this harness sat at the edge of the 300 s budget; split, each case takes seconds)
fn check_positions(n: usize, with_variances: bool) {
    // (never dropped: recursive drop glue of the IR types, DESIGN P15)
    let a = core::mem::ManuallyDrop::new([lt(), lt(), lt()]);
    let b = core::mem::ManuallyDrop::new([lt(), lt(), lt()]);
    let declared = [any_variance(), any_variance(), any_variance()];
    let ambient = any_variance();
    let fail_at: usize = kani::any_where(|k: &usize| *k <= 3);
    let mut z = core::mem::ManuallyDrop::new(Recorder { seen: [None; 4], count: 0, fail_at, db: Db });
    let vs = if with_variances { Some(Variances::from_iter(I, declared)) } else { None };
    let r = z.zip_substs(ambient, vs, &a[..n], &b[..n]);

    kani::cover!(r.is_ok());
    kani::cover!(n == 0 || r.is_err());
    if fail_at < n {
        assert!(r.is_err(), "the error of the failing position is returned");
        assert!(z.count == fail_at + 1, "nothing is related after a failure");
    } else {
        assert!(r.is_ok());
        assert!(z.count == n, "every position related exactly once");
    }
    let mut i = 0;
    while i < z.count {
        let expect = if with_variances { compose(ambient, declared[i]) } else { Variance::Invariant };
        assert!(z.seen[i] == Some(expect), "position i related at ambient ∘ declared[i]");
        i += 1;
    }
}

macro_rules! k7_case {
    ($name:ident, $n:expr, $wv:expr) => {
        #[kani::proof]
        #[kani::unwind(5)]
        fn $name() {
            check_positions($n, $wv);
        }
    };
}
k7_case!(k7_zip_substs_positions_n0_declared, 0, true);
k7_case!(k7_zip_substs_positions_n1_declared, 1, true);
k7_case!(k7_zip_substs_positions_n2_declared, 2, true);
k7_case!(k7_zip_substs_positions_n3_declared, 3, true);
k7_case!(k7_zip_substs_positions_n0_none, 0, false);
k7_case!(k7_zip_substs_positions_n1_none, 1, false);
k7_case!(k7_zip_substs_positions_n2_none, 2, false);
k7_case!(k7_zip_substs_positions_n3_none, 3, false);
