// Unit K5L `ir_in_place`, storage leaks — child module of chalk-ir/src/fold/in_place.rs.
//
// C27 "... no memory leaks ...": the drop counters of unit K5 see every ELEMENT; the heap buffer that held them
// is invisible to them.  These harnesses run the real functions under CBMC's --memory-leak-check: when the
// harness returns, every allocation made during it must have been freed - on success (after the result is
// dropped) and on failure alike.
use super::*;

#[derive(Clone, Copy)]
struct P(u8);
#[derive(Clone, Copy)]
struct Q(u8);

#[kani::proof]
#[kani::unwind(3)]
fn k5l_box_identical_layout() {
    let fail: bool = kani::any();
    let b = Box::new(P(1));
    let r: Result<Box<Q>, u8> = fallible_map_box(b, |t| if fail { Err(t.0) } else { Ok(Q(t.0)) });
    kani::cover!(r.is_ok());
    kani::cover!(r.is_err());
    drop(r);
}

#[kani::proof]
#[kani::unwind(3)]
fn k5l_box_different_layout() {
    let fail: bool = kani::any();
    let b = Box::new(P(2));
    let r: Result<Box<u32>, ()> = fallible_map_box(b, |t| if fail { Err(()) } else { Ok(t.0 as u32) });
    kani::cover!(r.is_ok());
    kani::cover!(r.is_err());
    drop(r);
}

#[kani::proof]
#[kani::unwind(4)]
fn k5l_vec_identical_layout_n2() {
    let fail_at: usize = kani::any_where(|k: &usize| *k <= 2);
    let mut v = Vec::with_capacity(2);
    v.push(P(0));
    v.push(P(1));
    let mut i = 0usize;
    let r: Result<Vec<Q>, u8> = fallible_map_vec(v, |t| {
        let k = i;
        i += 1;
        if k == fail_at { Err(t.0) } else { Ok(Q(t.0)) }
    });
    kani::cover!(r.is_ok());
    kani::cover!(r.is_err());
    drop(r);
}
