// Unit K1 `ir_index` + K3 `ir_variance` — compiled as a child module of
// chalk-ir/src/lib.rs (scratch copy) under cfg(kani).
//
// The function contracts themselves (kani::requires / kani::ensures) are
// attached to the *real* functions by the driver (see units/catalog.py, unit
// K1, `contracts`); this file holds
//   * one `proof_for_contract` harness per contracted function (full domain),
//   * the algebraic laws of C25/C16/C29 as lemmas over those contracts: every
//     callee is replaced by its verified contract (`stub_verified`), so the
//     lemma sees the contract, not the body.
// All harnesses are loop-free over full machine-integer / enum domains, hence
// complete (not bounded).
use super::*;

impl kani::Arbitrary for DebruijnIndex {
    fn any() -> Self {
        DebruijnIndex::new(kani::any())
    }
}
impl kani::Arbitrary for BoundVar {
    fn any() -> Self {
        BoundVar::new(kani::any(), kani::any())
    }
}
impl kani::Arbitrary for UniverseIndex {
    fn any() -> Self {
        UniverseIndex { counter: kani::any() }
    }
}
impl kani::Arbitrary for Variance {
    fn any() -> Self {
        match kani::any::<u8>() % 3 {
            0 => Variance::Covariant,
            1 => Variance::Invariant,
            _ => Variance::Contravariant,
        }
    }
}
impl kani::Arbitrary for ClausePriority {
    fn any() -> Self {
        if kani::any() {
            ClausePriority::High
        } else {
            ClausePriority::Low
        }
    }
}

// ---------------------------------------------------------------- contracts

#[kani::proof_for_contract(DebruijnIndex::within)]
fn k1_c_db_within() {
    let a: DebruijnIndex = kani::any();
    let b: DebruijnIndex = kani::any();
    a.within(b);
}

#[kani::proof_for_contract(DebruijnIndex::shifted_in_from)]
fn k1_c_db_shifted_in_from() {
    let a: DebruijnIndex = kani::any();
    let b: DebruijnIndex = kani::any();
    kani::cover!(a.depth > 0 && b.depth > 0);
    a.shifted_in_from(b);
}

#[kani::proof_for_contract(DebruijnIndex::shifted_out_to)]
fn k1_c_db_shifted_out_to() {
    let a: DebruijnIndex = kani::any();
    let b: DebruijnIndex = kani::any();
    kani::cover!(a.depth < b.depth);
    kani::cover!(a.depth >= b.depth && b.depth > 0);
    a.shifted_out_to(b);
}

#[kani::proof_for_contract(DebruijnIndex::shifted_in)]
#[kani::stub_verified(DebruijnIndex::shifted_in_from)]
fn k1_c_db_shifted_in() {
    let a: DebruijnIndex = kani::any();
    a.shifted_in();
}

#[kani::proof_for_contract(DebruijnIndex::shifted_out)]
#[kani::stub_verified(DebruijnIndex::shifted_out_to)]
fn k1_c_db_shifted_out() {
    let a: DebruijnIndex = kani::any();
    kani::cover!(a.depth == 0);
    kani::cover!(a.depth > 0);
    a.shifted_out();
}

#[kani::proof_for_contract(BoundVar::bound_within)]
#[kani::stub_verified(DebruijnIndex::within)]
fn k1_c_bv_bound_within() {
    let a: BoundVar = kani::any();
    a.bound_within(kani::any());
}

#[kani::proof_for_contract(BoundVar::shifted_in_from)]
#[kani::stub_verified(DebruijnIndex::shifted_in_from)]
fn k1_c_bv_shifted_in_from() {
    let a: BoundVar = kani::any();
    a.shifted_in_from(kani::any());
}

#[kani::proof_for_contract(BoundVar::shifted_in)]
#[kani::stub_verified(DebruijnIndex::shifted_in)]
fn k1_c_bv_shifted_in() {
    let a: BoundVar = kani::any();
    a.shifted_in();
}

#[kani::proof_for_contract(BoundVar::shifted_out_to)]
#[kani::stub_verified(DebruijnIndex::shifted_out_to)]
fn k1_c_bv_shifted_out_to() {
    let a: BoundVar = kani::any();
    let b: DebruijnIndex = kani::any();
    kani::cover!(a.debruijn.depth < b.depth);
    kani::cover!(a.debruijn.depth >= b.depth);
    a.shifted_out_to(b);
}

#[kani::proof_for_contract(BoundVar::shifted_out)]
#[kani::stub_verified(DebruijnIndex::shifted_out)]
fn k1_c_bv_shifted_out() {
    let a: BoundVar = kani::any();
    a.shifted_out();
}

#[kani::proof_for_contract(BoundVar::index_if_bound_at)]
fn k1_c_bv_index_if_bound_at() {
    let a: BoundVar = kani::any();
    a.index_if_bound_at(kani::any());
}

#[kani::proof_for_contract(BoundVar::index_if_innermost)]
#[kani::stub_verified(BoundVar::index_if_bound_at)]
fn k1_c_bv_index_if_innermost() {
    let a: BoundVar = kani::any();
    a.index_if_innermost();
}

#[kani::proof_for_contract(UniverseIndex::can_see)]
fn k1_c_ui_can_see() {
    let a: UniverseIndex = kani::any();
    a.can_see(kani::any());
}

#[kani::proof_for_contract(UniverseIndex::next)]
fn k1_c_ui_next() {
    let a: UniverseIndex = kani::any();
    a.next();
}

#[kani::proof_for_contract(Variance::xform)]
fn k3_c_xform() {
    let a: Variance = kani::any();
    a.xform(kani::any());
}

#[kani::proof_for_contract(Variance::invert)]
fn k3_c_invert() {
    let a: Variance = kani::any();
    a.invert();
}

// ------------------------------------------------- lemmas over the contracts

/// C25: shifting a variable in by k and back out by k is the identity.
#[kani::proof]
#[kani::stub_verified(BoundVar::shifted_in_from)]
#[kani::stub_verified(BoundVar::shifted_out_to)]
fn k1_l_shift_in_out_roundtrip() {
    let x: BoundVar = kani::any();
    let k: DebruijnIndex = kani::any();
    kani::assume(x.debruijn.depth as u64 + k.depth as u64 <= u32::MAX as u64);
    let y = x.shifted_in_from(k);
    kani::cover!(k.depth > 0 && x.debruijn.depth > 0);
    assert!(y.shifted_out_to(k) == Some(x));
    // and it is now *not* bound within k binders
    assert!(!y.debruijn.within(k) || k.depth == 0);
}

/// C25: where shifting out by k succeeds, shifting back in restores the variable;
/// it fails exactly for variables bound within the k binders being removed.
#[kani::proof]
#[kani::stub_verified(BoundVar::shifted_in_from)]
#[kani::stub_verified(BoundVar::shifted_out_to)]
fn k1_l_shift_out_in_roundtrip() {
    let x: BoundVar = kani::any();
    let k: DebruijnIndex = kani::any();
    match x.shifted_out_to(k) {
        Some(y) => {
            assert!(x.debruijn.depth >= k.depth);
            assert!(y.shifted_in_from(k) == x);
        }
        None => assert!(x.debruijn.depth < k.depth),
    }
}

/// C25: shifts compose additively (shift by a then b == shift by a+b).
#[kani::proof]
#[kani::stub_verified(DebruijnIndex::shifted_in_from)]
fn k1_l_shift_in_additive() {
    let x: DebruijnIndex = kani::any();
    let a: DebruijnIndex = kani::any();
    let b: DebruijnIndex = kani::any();
    kani::assume(x.depth as u64 + a.depth as u64 + b.depth as u64 <= u32::MAX as u64);
    let ab = a.shifted_in_from(b);
    assert!(x.shifted_in_from(a).shifted_in_from(b) == x.shifted_in_from(ab));
}

/// C16 / C14: `can_see` is a total preorder that agrees with the counter order,
/// `next` is strictly above.
#[kani::proof]
#[kani::stub_verified(UniverseIndex::can_see)]
#[kani::stub_verified(UniverseIndex::next)]
fn k1_l_universe_order() {
    let u: UniverseIndex = kani::any();
    let v: UniverseIndex = kani::any();
    let w: UniverseIndex = kani::any();
    assert!(u.can_see(u));
    assert!(u.can_see(v) || v.can_see(u));
    if u.can_see(v) && v.can_see(w) {
        assert!(u.can_see(w));
    }
    if u.can_see(v) && v.can_see(u) {
        assert!(u == v);
    }
    assert!(u.can_see(UniverseIndex::ROOT));
    if u.counter < usize::MAX {
        let n = u.next();
        assert!(n.can_see(u) && !u.can_see(n));
    }
}

/// C29: the variance algebra is the standard one (PLDI'11, fig. 1).
#[kani::proof]
#[kani::stub_verified(Variance::xform)]
#[kani::stub_verified(Variance::invert)]
fn k3_l_variance_algebra() {
    let a: Variance = kani::any();
    let b: Variance = kani::any();
    let c: Variance = kani::any();
    // identity, absorbing element
    assert!(Variance::Covariant.xform(a) == a && a.xform(Variance::Covariant) == a);
    assert!(Variance::Invariant.xform(a) == Variance::Invariant);
    assert!(a.xform(Variance::Invariant) == Variance::Invariant);
    assert!(Variance::Contravariant.xform(Variance::Contravariant) == Variance::Covariant);
    // commutative monoid
    assert!(a.xform(b) == b.xform(a));
    assert!(a.xform(b).xform(c) == a.xform(b.xform(c)));
    // invert is an involution and is composition with Contravariant
    assert!(a.invert().invert() == a);
    assert!(a.invert() == Variance::Contravariant.xform(a));
    assert!(a.xform(b).invert() == a.invert().xform(b));
}

/// C13: the priority meet is commutative, associative, idempotent, High neutral.
#[kani::proof]
fn k3_l_priority_meet() {
    let a: ClausePriority = kani::any();
    let b: ClausePriority = kani::any();
    let c: ClausePriority = kani::any();
    assert!((a & b) == (b & a));
    assert!(((a & b) & c) == (a & (b & c)));
    assert!((a & a) == a);
    assert!((a & ClausePriority::High) == a);
    assert!((a & ClausePriority::Low) == ClausePriority::Low);
}
