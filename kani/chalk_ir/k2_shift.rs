// Unit K2 `ir_shift_leaf` (part 1) — child module of chalk-ir/src/fold/shift.rs.
//
// Function contracts are attached by the driver to the real `Shifter::adjust`
// and `DownShifter::adjust` (see units/catalog.py, K2):
//   Shifter::adjust(bv, ob)      pre : bv.depth + source_binder + ob fits in u32
//                                post: index unchanged, depth == bv.depth + source_binder + ob
//   DownShifter::adjust(bv, ob)  pre : (bv.depth - target) + ob fits in u32 when bv.depth >= target
//                                post: Err <=> bv.depth < target_binder;
//                                      Ok(r): index unchanged, r.depth == bv.depth - target_binder + ob
// The lemmas below compose them with the fold driver's leaf step
// (`if let Some(bv1) = bv.shifted_out_to(outer_binder) { folder.fold_free_var(bv1, outer_binder) } else { bv }`,
// chalk-ir/src/fold.rs) — replicated here in `leaf_up` / `leaf_down` because the
// driver itself is generic recursion over `dyn` folders, out of CBMC's reach.
use super::*;
use crate::*;

#[path = "/verif/kani/common/verif_ir.rs"]
mod verif_ir;
use verif_ir::VerifIr;

impl kani::Arbitrary for Shifter<VerifIr> {
    fn any() -> Self {
        Shifter { source_binder: DebruijnIndex::new(kani::any()), interner: VerifIr }
    }
}
impl kani::Arbitrary for DownShifter<VerifIr> {
    fn any() -> Self {
        DownShifter { target_binder: DebruijnIndex::new(kani::any()), interner: VerifIr }
    }
}
fn any_bv() -> BoundVar {
    BoundVar::new(DebruijnIndex::new(kani::any()), kani::any())
}
fn any_db() -> DebruijnIndex {
    DebruijnIndex::new(kani::any())
}

#[kani::proof_for_contract(Shifter::adjust)]
fn k2_c_shifter_adjust() {
    let s: Shifter<VerifIr> = kani::any();
    s.adjust(any_bv(), any_db());
}

#[kani::proof_for_contract(DownShifter::adjust)]
fn k2_c_downshifter_adjust() {
    let s: DownShifter<VerifIr> = kani::any();
    let bv = any_bv();
    kani::cover!(bv.debruijn.depth() < s.target_binder.depth());
    kani::cover!(bv.debruijn.depth() >= s.target_binder.depth());
    let _ = s.adjust(bv, any_db());
}

/// the driver's leaf step for an up-shift by k at a variable under `ob` binders
fn leaf_up(k: u32, bv: BoundVar, ob: DebruijnIndex) -> BoundVar {
    let s = Shifter { source_binder: DebruijnIndex::new(k), interner: VerifIr };
    match bv.shifted_out_to(ob) {
        Some(bv1) => s.adjust(bv1, ob),
        None => bv,
    }
}
fn leaf_down(k: u32, bv: BoundVar, ob: DebruijnIndex) -> Result<BoundVar, NoSolution> {
    let s = DownShifter { target_binder: DebruijnIndex::new(k), interner: VerifIr };
    match bv.shifted_out_to(ob) {
        Some(bv1) => s.adjust(bv1, ob),
        None => Ok(bv),
    }
}

/// (L1) shifting in by k and back out by k is the identity at every variable
/// occurrence, bound or free, under any number of binders.
#[kani::proof]
fn k2_l_up_then_down_is_identity() {
    let bv = any_bv();
    let ob = any_db();
    let k: u32 = kani::any();
    kani::assume(bv.debruijn.depth() as u64 + k as u64 + ob.depth() as u64 <= u32::MAX as u64);
    let up = leaf_up(k, bv, ob);
    kani::cover!(bv.debruijn.depth() < ob.depth());
    kani::cover!(bv.debruijn.depth() >= ob.depth() && k > 0);
    if bv.debruijn.depth() < ob.depth() {
        assert!(up == bv, "variables bound inside the term are untouched");
    } else {
        assert!(up.index == bv.index && up.debruijn.depth() == bv.debruijn.depth() + k);
    }
    assert!(leaf_down(k, up, ob) == Ok(bv));
}

/// (L1) shifting out by k fails exactly for variables that refer to one of the
/// k binders being removed; where it succeeds, shifting back in restores the variable.
#[kani::proof]
fn k2_l_down_then_up_is_identity() {
    let bv = any_bv();
    let ob = any_db();
    let k: u32 = kani::any();
    kani::assume(bv.debruijn.depth() as u64 + k as u64 + ob.depth() as u64 <= u32::MAX as u64);
    match leaf_down(k, bv, ob) {
        Ok(down) => {
            assert!(bv.debruijn.depth() < ob.depth() || bv.debruijn.depth() as u64 >= ob.depth() as u64 + k as u64);
            assert!(leaf_up(k, down, ob) == bv);
        }
        Err(NoSolution) => {
            assert!(bv.debruijn.depth() >= ob.depth() && (bv.debruijn.depth() as u64) < ob.depth() as u64 + k as u64);
        }
    }
}

/// shifting by zero binders changes nothing
#[kani::proof]
fn k2_l_shift_zero_is_identity() {
    let bv = any_bv();
    let ob = any_db();
    assert!(leaf_up(0, bv, ob) == bv);
    assert!(leaf_down(0, bv, ob) == Ok(bv));
}
