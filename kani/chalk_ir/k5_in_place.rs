// Unit K5 `ir_in_place` — compiled as a child module of
// chalk-ir/src/fold/in_place.rs (scratch copy) under cfg(kani), so that it can
// reach the private `VecMappedInPlace` guard.
//
// Harness-side contracts for (C27):
//   fallible_map_vec(v, f):
//     pre : v is any Vec<T> with len <= N, cap in [len, N]; f consumes its
//           argument, fails exactly at element `fail_at` (symbolic, any position
//           or none)
//     post: Ok(out)  <=> no element failed; out[i] == f(v[i]); *no* element was
//                        dropped; dropping `out` drops every element exactly once (as U)
//           Err(_)   <=> some element failed; every element dropped exactly once:
//                        [0,k) as U, k by `f` itself, (k,len) as T
//     + every CBMC pointer / allocation / deallocation check (no use after free,
//       no double free, no out-of-bounds, no read of moved-out memory through a drop)
//   Drop for VecMappedInPlace (the *only* code that runs when `f` panics):
//     pre : slots [0,m) hold U, slot m is moved out, (m,len) hold T, m < len
//     post: every slot != m dropped exactly once as its type; slot m untouched;
//           buffer freed exactly once
//   fallible_map_box: same three outcomes for a Box.
// Bounded in the vector length only (N = 3 quick, 6 thorough); failure position,
// capacity slack (exact fit / one spare), layout class (identical / different size / ZST) are symbolic
// or enumerated exhaustively.
use super::*;

const MAXID: usize = 8;
// (ids are element positions; MAXID > largest thorough length)
static mut DROPS_T: [u8; MAXID] = [0; MAXID];
static mut DROPS_U: [u8; MAXID] = [0; MAXID];

struct T(u8);
struct U(u8);
impl Drop for T {
    fn drop(&mut self) {
        unsafe { DROPS_T[self.0 as usize] += 1 }
    }
}
impl Drop for U {
    fn drop(&mut self) {
        unsafe { DROPS_U[self.0 as usize] += 1 }
    }
}
fn dt(i: usize) -> u8 {
    unsafe { DROPS_T[i] }
}
fn du(i: usize) -> u8 {
    unsafe { DROPS_U[i] }
}

fn mk_vec(n: usize, cap: usize) -> Vec<T> {
    let mut v: Vec<T> = Vec::with_capacity(cap);
    let mut i = 0;
    while i < n {
        v.push(T(i as u8));
        i += 1;
    }
    v
}

// (a symbolic *capacity* makes the allocation size symbolic and costs CBMC two
// orders of magnitude; capacity slack is therefore enumerated: `max + 1` with a
// symbolic length, and exact fit with each concrete length)
fn vec_contract(n: usize, cap: usize, max: usize) {
    let fail_at: usize = kani::any_where(|k: &usize| *k <= max);
    let v = mk_vec(n, cap);
    let r: Result<Vec<U>, u8> = fallible_map_vec(v, |t| {
        let id = t.0;
        if id as usize == fail_at {
            // `t` is dropped here by the closure, as a real folder would on `?`
            Err(id)
        } else {
            core::mem::forget(t);
            Ok(U(id))
        }
    });
    kani::cover!(r.is_ok());
    kani::cover!(r.is_err() && fail_at == 0);
    kani::cover!(r.is_err() && fail_at + 1 == n);
    match r {
        Ok(out) => {
            assert!(fail_at >= n, "Ok only if no element failed");
            assert!(out.len() == n);
            let mut j = 0;
            while j < n {
                assert!(dt(j) == 0 && du(j) == 0, "success: nothing dropped");
                assert!(out[j].0 == j as u8, "success: element j is f(v[j])");
                j += 1;
            }
            drop(out);
            let mut j = 0;
            while j < n {
                assert!(dt(j) == 0 && du(j) == 1, "result owns every element exactly once");
                j += 1;
            }
        }
        Err(e) => {
            assert!(fail_at < n, "Err only if some element failed");
            assert!(e as usize == fail_at);
            let mut j = 0;
            while j < n {
                if j < fail_at {
                    assert!(du(j) == 1 && dt(j) == 0, "mapped element dropped once as U");
                } else if j == fail_at {
                    assert!(dt(j) == 1 && du(j) == 0, "in-flight element dropped once (by the folder), never by the guard");
                } else {
                    assert!(dt(j) == 1 && du(j) == 0, "unmapped element dropped once as T");
                }
                j += 1;
            }
        }
    }
}

#[kani::proof]
#[kani::unwind(5)]
fn k5_vec_identical_layout_n3() {
    let n: usize = kani::any_where(|n: &usize| *n <= 3);
    vec_contract(n, 4, 3);
}

#[kani::proof]
#[kani::unwind(5)]
fn k5_vec_identical_layout_exact_cap() {
    // exact-fit capacity, every concrete length 0..=3
    let n: u8 = kani::any_where(|n: &u8| *n <= 3);
    match n {
        0 => vec_contract(0, 0, 3),
        1 => vec_contract(1, 1, 3),
        2 => vec_contract(2, 2, 3),
        _ => vec_contract(3, 3, 3),
    }
}

#[kani::proof]
#[kani::unwind(8)]
fn k5_vec_identical_layout_n6_thorough() {
    let n: usize = kani::any_where(|n: &usize| *n <= 6);
    vec_contract(n, 7, 6);
}

/// Contract of the drop guard = the panic path.  The state is built exactly as
/// `fallible_map_vec` leaves it when it calls `map` on element m.
fn guard_contract(max: usize) {
    let n: usize = kani::any_where(|n: &usize| *n >= 1 && *n <= max);
    let cap: usize = max + 1;
    let m: usize = kani::any_where(|m: &usize| *m < n);
    let v = mk_vec(n, cap);
    let mut g = VecMappedInPlace::<T, U>::new(v);
    unsafe {
        let mut i = 0;
        while i < m {
            let place = g.ptr.add(i);
            let val = core::ptr::read(place);
            let id = val.0;
            core::mem::forget(val);
            core::ptr::write(place as *mut U, U(id));
            i += 1;
        }
        let inflight = core::ptr::read(g.ptr.add(m));
        g.map_in_progress = m;
        // the panicking `map` owns `inflight`; it is not the guard's to drop
        core::mem::forget(inflight);
    }
    kani::cover!(m == 0 && n == max);
    kani::cover!(m + 1 == n && n == max);
    drop(g);
    let mut j = 0;
    while j < n {
        if j < m {
            assert!(du(j) == 1 && dt(j) == 0);
        } else if j == m {
            assert!(du(j) == 0 && dt(j) == 0, "guard must not touch the moved-out slot");
        } else {
            assert!(dt(j) == 1 && du(j) == 0);
        }
        j += 1;
    }
}

#[kani::proof]
#[kani::unwind(5)]
fn k5_guard_drop_n3() {
    guard_contract(3);
}

#[kani::proof]
#[kani::unwind(8)]
fn k5_guard_drop_n6_thorough() {
    guard_contract(6);
}

// ---- different layout: the safe `into_iter().map().collect()` path
struct W(u16);
impl Drop for W {
    fn drop(&mut self) {
        unsafe { DROPS_U[self.0 as usize] += 1 }
    }
}

#[kani::proof]
#[kani::unwind(4)]
fn k5_vec_different_layout_n2() {
    let n: usize = kani::any_where(|n: &usize| *n <= 2);
    let fail_at: usize = kani::any_where(|k: &usize| *k <= 2);
    let v = mk_vec(n, 2);
    let r: Result<Vec<W>, ()> = fallible_map_vec(v, |t| {
        let id = t.0;
        if id as usize == fail_at {
            Err(())
        } else {
            core::mem::forget(t);
            Ok(W(id as u16))
        }
    });
    kani::cover!(r.is_ok() && n == 2);
    kani::cover!(r.is_err() && n == 2);
    match r {
        Ok(out) => {
            assert!(fail_at >= n && out.len() == n);
            let mut j = 0;
            while j < n {
                assert!(dt(j) == 0 && du(j) == 0 && out[j].0 == j as u16);
                j += 1;
            }
        }
        Err(()) => {
            assert!(fail_at < n);
            let mut j = 0;
            while j < n {
                assert!(dt(j) + du(j) == 1, "every element dropped exactly once");
                j += 1;
            }
        }
    }
}

// ---- zero-sized elements
static mut ZDROPS: u8 = 0;
struct Z;
impl Drop for Z {
    fn drop(&mut self) {
        unsafe { ZDROPS += 1 }
    }
}

#[kani::proof]
#[kani::unwind(4)]
fn k5_vec_zst_n2() {
    let n: usize = kani::any_where(|n: &usize| *n <= 2);
    let fail_at: usize = kani::any_where(|k: &usize| *k <= 2);
    let mut v: Vec<Z> = Vec::new();
    let mut i = 0;
    while i < n {
        v.push(Z);
        i += 1;
    }
    let mut seen = 0usize;
    let r: Result<Vec<Z>, ()> = fallible_map_vec(v, |z| {
        let k = seen;
        seen += 1;
        if k == fail_at {
            Err(())
        } else {
            Ok(z)
        }
    });
    match r {
        Ok(out) => {
            assert!(fail_at >= n && out.len() == n);
            assert!(unsafe { ZDROPS } == 0);
        }
        Err(()) => {
            assert!(fail_at < n);
            assert!(unsafe { ZDROPS } as usize == n, "every element dropped exactly once");
        }
    }
}

// ---- Box
#[kani::proof]
fn k5_box_identical_layout() {
    let fail: bool = kani::any();
    let b = Box::new(T(1));
    let r: Result<Box<U>, u8> = fallible_map_box(b, |t| {
        let id = t.0;
        if fail {
            Err(id)
        } else {
            core::mem::forget(t);
            Ok(U(id))
        }
    });
    kani::cover!(r.is_ok());
    kani::cover!(r.is_err());
    match r {
        Ok(out) => {
            assert!(!fail && out.0 == 1);
            assert!(dt(1) == 0 && du(1) == 0, "success: nothing dropped");
            drop(out);
            assert!(dt(1) == 0 && du(1) == 1);
        }
        Err(e) => {
            assert!(fail && e == 1);
            assert!(dt(1) == 1 && du(1) == 0, "value dropped exactly once (by the folder), box storage freed without dropping it again");
        }
    }
}

#[kani::proof]
fn k5_box_different_layout() {
    let fail: bool = kani::any();
    let b = Box::new(T(2));
    let r: Result<Box<W>, ()> = fallible_map_box(b, |t| {
        let id = t.0;
        if fail {
            Err(())
        } else {
            core::mem::forget(t);
            Ok(W(id as u16))
        }
    });
    match r {
        Ok(out) => {
            assert!(!fail && out.0 == 2 && dt(2) == 0 && du(2) == 0);
        }
        Err(()) => {
            assert!(fail && dt(2) == 1 && du(2) == 0);
        }
    }
}
