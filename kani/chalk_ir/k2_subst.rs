// Unit K2S `ir_subst_leaf` — child module of chalk-ir/src/fold/subst.rs.
//
// Harness-side contract of `Subst::fold_free_var_{ty,lifetime}` (the leaf of
// `Binders::substitute` / `Subst::apply`, C25):
//   pre : the variable is free in the term being substituted into (the driver
//         has already shifted it out of the term's internal binders `ob`);
//         if it belongs to the eliminated binder its index is < parameters.len()
//         and the parameter has the variable's kind
//   post: variable of the eliminated binder (depth 0, index i)
//             -> parameters[i] shifted in by `ob`
//         variable of an enclosing binder (depth d >= 1)
//             -> the same variable at depth d - 1 + ob  (one binder was removed), index unchanged
// (L2) self-substitution: with parameters[i] == ^0.i the first case returns ^ob.i, i.e. the
//      occurrence is unchanged once re-bound — substitution of a binder's own variables is the identity.
// Parameters are concrete one-leaf terms (a bound variable with symbolic depth/index);
// larger parameter terms go through the generic fold driver (not verified).
use super::*;

#[path = "/verif/kani/common/verif_ir.rs"]
mod verif_ir;
use verif_ir::VerifIr;

fn bv_of_ty(t: &Ty<VerifIr>) -> Option<BoundVar> {
    match t.kind(VerifIr) {
        TyKind::BoundVar(b) => Some(*b),
        _ => None,
    }
}
fn bv_of_lt(l: &Lifetime<VerifIr>) -> Option<BoundVar> {
    match l.data(VerifIr) {
        LifetimeData::BoundVar(b) => Some(*b),
        _ => None,
    }
}

/// outer-variable branch: a free variable that does NOT belong to the eliminated
/// binder loses exactly one binder level and keeps its index.
/// (The other branch — `parameters[i]` shifted in under the term's binders — calls the
/// generic fold driver on the parameter; even for a one-leaf parameter CBMC does not
/// finish within 7 minutes, so it is not covered: recorded in DESIGN.md.)
#[kani::proof]
#[kani::unwind(3)]
fn k2s_subst_outer_var_ty() {
    let params: [GenericArg<VerifIr>; 0] = [];
    let mut s = Subst { parameters: &params, interner: VerifIr };
    let d: u32 = kani::any_where(|d: &u32| *d >= 1);
    let ob: u32 = kani::any();
    kani::assume((d - 1) as u64 + ob as u64 <= u32::MAX as u64);
    let idx: usize = kani::any();
    // (never dropped: the recursive drop glue of `Ty` makes CBMC time out, DESIGN P15)
    let r = core::mem::ManuallyDrop::new(TypeFolder::fold_free_var_ty(&mut s, BoundVar::new(DebruijnIndex::new(d), idx), DebruijnIndex::new(ob)));
    let rb = bv_of_ty(&r);
    assert!(rb.is_some());
    let rb = rb.unwrap();
    assert!(rb.index == idx && rb.debruijn.depth() == d - 1 + ob, "outer variable: exactly one binder removed");
}

#[kani::proof]
#[kani::unwind(3)]
fn k2s_subst_outer_var_lifetime() {
    let params: [GenericArg<VerifIr>; 0] = [];
    let mut s = Subst { parameters: &params, interner: VerifIr };
    let d: u32 = kani::any_where(|d: &u32| *d >= 1);
    let ob: u32 = kani::any();
    kani::assume((d - 1) as u64 + ob as u64 <= u32::MAX as u64);
    let idx: usize = kani::any();
    let r = core::mem::ManuallyDrop::new(TypeFolder::fold_free_var_lifetime(&mut s, BoundVar::new(DebruijnIndex::new(d), idx), DebruijnIndex::new(ob)));
    let rb = bv_of_lt(&r);
    assert!(rb.is_some());
    let rb = rb.unwrap();
    assert!(rb.index == idx && rb.debruijn.depth() == d - 1 + ob);
}
