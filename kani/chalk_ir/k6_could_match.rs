// Unit K6 `ir_could_match` — child module of chalk-ir/src/could_match.rs.
//
// Contract of `CouldMatch::could_match` on types (C18: the pre-filter never rejects
// a clause whose conclusion can be unified with the goal):
//     could_match(a, b) == false  ==>  a and b have NO common instance
// checked against the oracle `cannot_unify`, written from the definition of
// (first-order) unification on the shapes below, NOT from the code:
//     two terms cannot be unified iff both heads are rigid constructors and
//     either the constructors differ (kind, id, scalar, mutability, arity) or some
//     pair of corresponding children cannot be unified.
// Inference variables, bound variables (instantiated with fresh inference variables
// before matching), aliases (normalised lazily), function pointers and `dyn` may
// always match; a placeholder may match anything that is not provably distinct —
// the oracle treats `placeholder vs rigid` as NOT provably distinct for the filter
// (the real filter answers `true` there; being less precise is allowed).
// Lifetimes and constants never make the filter fail.
// Shapes: every rigid head kind with <= 2 children; children are leaves.  BOUNDED.
use super::*;

#[path = "/verif/kani/common/verif_ir.rs"]
mod verif_ir;
use verif_ir::VerifIr;

const I: VerifIr = VerifIr;

#[derive(Debug)]
struct Db;
impl UnificationDatabase<VerifIr> for Db {
    fn fn_def_variance(&self, _: FnDefId<VerifIr>) -> Variances<VerifIr> {
        Variances::from_iter(I, [Variance::Invariant, Variance::Invariant])
    }
    fn adt_variance(&self, _: AdtId<VerifIr>) -> Variances<VerifIr> {
        Variances::from_iter(I, [Variance::Invariant, Variance::Invariant])
    }
}

// ---- leaves -----------------------------------------------------------------
const N_LEAF: u8 = 7;
fn leaf(k: u8) -> Ty<VerifIr> {
    match k {
        0 => TyKind::Scalar(Scalar::Bool).intern(I),
        1 => TyKind::Scalar(Scalar::Char).intern(I),
        2 => TyKind::Str.intern(I),
        3 => TyKind::Never.intern(I),
        4 => TyKind::InferenceVar(InferenceVar::from(0), TyVariableKind::General).intern(I),
        5 => TyKind::BoundVar(BoundVar::new(DebruijnIndex::INNERMOST, 0)).intern(I),
        _ => TyKind::Placeholder(PlaceholderIndex { ui: UniverseIndex::ROOT, idx: 0 }).intern(I),
    }
}
/// leaves 0..=3 are rigid; 4, 5 are variables; 6 is a placeholder
fn leaf_cannot_unify(a: u8, b: u8) -> bool {
    a <= 3 && b <= 3 && a != b
}

// ---- heads ------------------------------------------------------------------
const N_HEAD: u8 = 16;
fn arg(k: u8) -> GenericArg<VerifIr> {
    GenericArgData::Ty(leaf(k)).intern(I)
}
fn subst2(c1: u8, c2: u8) -> Substitution<VerifIr> {
    Substitution::from_iter(I, [arg(c1), arg(c2)])
}
fn mk(head: u8, id: u32, c1: u8, c2: u8) -> Ty<VerifIr> {
    let lt = LifetimeData::Static.intern(I);
    match head {
        0 => TyKind::Adt(AdtId(id), subst2(c1, c2)),
        1 => TyKind::AssociatedType(AssocTypeId(id), subst2(c1, c2)),
        2 => TyKind::Tuple(2, subst2(c1, c2)),
        3 => TyKind::OpaqueType(OpaqueTyId(id), subst2(c1, c2)),
        4 => TyKind::FnDef(FnDefId(id), subst2(c1, c2)),
        5 => TyKind::Closure(ClosureId(id), subst2(c1, c2)),
        6 => TyKind::Coroutine(CoroutineId(id), subst2(c1, c2)),
        7 => TyKind::CoroutineWitness(CoroutineId(id), subst2(c1, c2)),
        8 => TyKind::Slice(leaf(c1)),
        9 => TyKind::Raw(if id == 0 { Mutability::Not } else { Mutability::Mut }, leaf(c1)),
        10 => TyKind::Ref(if id == 0 { Mutability::Not } else { Mutability::Mut }, lt, leaf(c1)),
        11 => TyKind::Foreign(ForeignDefId(id)),
        12 => return leaf(c1), // a bare leaf (rigid, variable or placeholder)
        // heads that may always match:
        13 => TyKind::Alias(AliasTy::Projection(ProjectionTy { associated_ty_id: AssocTypeId(id), substitution: subst2(c1, c2) })),
        14 => TyKind::Function(FnPointer {
            num_binders: 0,
            sig: FnSig { abi: 0u8, safety: Safety::Safe, variadic: false },
            substitution: FnSubst(subst2(c1, c2)),
        }),
        _ => TyKind::Error,
    }
    .intern(I)
}

/// the unification oracle on the encodings (head, id, c1, c2)
fn cannot_unify(h1: u8, id1: u32, a1: u8, a2: u8, h2: u8, id2: u32, b1: u8, b2: u8) -> bool {
    // bare leaves
    if h1 == 12 && h2 == 12 {
        return leaf_cannot_unify(a1, b1);
    }
    let rigid_leaf = |h: u8, c: u8| h == 12 && c <= 3;
    let flexible = |h: u8, c: u8| (h == 12 && c >= 4) || h == 13 || h == 14;
    if flexible(h1, a1) || flexible(h2, b1) {
        return false;
    }
    // both rigid from here on (constructors 0..=11, 15, or rigid leaves)
    if rigid_leaf(h1, a1) || rigid_leaf(h2, b1) {
        return h1 != h2; // a rigid leaf against a constructor application
    }
    if h1 != h2 {
        return true;
    }
    match h1 {
        0 | 1 | 3 | 4 | 5 | 6 | 7 => id1 != id2 || leaf_cannot_unify(a1, b1) || leaf_cannot_unify(a2, b2),
        2 => leaf_cannot_unify(a1, b1) || leaf_cannot_unify(a2, b2),
        8 => leaf_cannot_unify(a1, b1),
        9 | 10 => (id1 == 0) != (id2 == 0) || leaf_cannot_unify(a1, b1),
        11 => id1 != id2,
        _ => false, // Error vs Error
    }
}

fn could_match_contract(h1: u8) {
    let h2: u8 = kani::any_where(|h: &u8| *h < N_HEAD);
    let (id1, id2): (u32, u32) = (kani::any_where(|i: &u32| *i < 2), kani::any_where(|i: &u32| *i < 2));
    let a1: u8 = kani::any_where(|k: &u8| *k < N_LEAF);
    let a2: u8 = kani::any_where(|k: &u8| *k < N_LEAF);
    let b1: u8 = kani::any_where(|k: &u8| *k < N_LEAF);
    let b2: u8 = kani::any_where(|k: &u8| *k < N_LEAF);
    // never dropped: the recursive drop glue of `Ty` is what CBMC cannot unwind
    let a = core::mem::ManuallyDrop::new(mk(h1, id1, a1, a2));
    let b = core::mem::ManuallyDrop::new(mk(h2, id2, b1, b2));
    let db = Db;
    let r = (*a).could_match(I, &db, &*b);
    kani::cover!(r);
    kani::cover!(!r);
    if !r {
        assert!(cannot_unify(h1, id1, a1, a2, h2, id2, b1, b2), "the filter rejected two types that have a common instance");
    }
    // symmetric
    assert!((*b).could_match(I, &db, &*a) == r, "the filter is symmetric");
}

macro_rules! per_head {
    ($($name:ident => $h:expr),*) => { $(
        #[kani::proof]
        #[kani::unwind(4)]
        fn $name() { could_match_contract($h); }
    )* }
}
per_head!(k6_head_adt => 0, k6_head_assoc => 1, k6_head_tuple => 2, k6_head_opaque => 3, k6_head_fndef => 4,
          k6_head_closure => 5, k6_head_coroutine => 6, k6_head_witness => 7, k6_head_slice => 8, k6_head_raw => 9,
          k6_head_ref => 10, k6_head_foreign => 11, k6_head_leaf => 12, k6_head_alias => 13, k6_head_fnptr => 14, k6_head_error => 15);
