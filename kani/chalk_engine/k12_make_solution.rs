// Unit K12 `engine_make_solution` — compiled as a child module of
// chalk-engine/src/slg/aggregate.rs (scratch copy) under cfg(kani).
//
// Contract of `AggregateOps::make_solution` for `SlgContextOps`, taken from the
// property statements (C01, C11, C28), against a MOCK answer stream that yields
// an arbitrary sequence of Answer{ambiguous?} / Floundered / NoMoreSolutions /
// QuantumExceeded:
//   (a) result None            <=> the stream's first item is NoMoreSolutions
//   (b) result Some(Unique(s)) <=> first item is an unambiguous answer AND the next is NoMoreSolutions;
//                                  s is that answer's substitution, unchanged
//   (c) a QuantumExceeded (interruption) seen before the decision => Some(Ambig(_)), never Unique, never None
//   (d) a Floundered first item => Some(Ambig(_))
//   (e) an ambiguous first answer => never Unique
// Streams are enumerated CONCRETELY by kani/gen_k12.py (a symbolic stream did not finish in 15
// minutes): every stream of length <= 2 over the five items (quick), length 3 (thorough);
// exhaustive below the bound.  Answers carry the empty substitution (a query without
// unknowns), so the anti-unifier is not entered.
use super::*;
use crate::context::AnswerStream;
use chalk_solve::rust_ir::*;
use chalk_solve::RustIrDatabase;
use std::sync::Arc;

#[path = "/verif/kani/common/verif_ir.rs"]
mod verif_ir;
use verif_ir::VerifIr;
include!("/verif/kani/common/mock_db.rs");

#[derive(Copy, Clone, PartialEq, Eq)]
enum Item {
    Answer { ambiguous: bool },
    Floundered,
    NoMore,
    Quantum,
}

impl kani::Arbitrary for Item {
    fn any() -> Self {
        match kani::any::<u8>() % 5 {
            0 => Item::Answer { ambiguous: false },
            1 => Item::Answer { ambiguous: true },
            2 => Item::Floundered,
            3 => Item::NoMore,
            _ => Item::Quantum,
        }
    }
}

const MAXLEN: usize = 4;

struct MockStream {
    items: [Item; MAXLEN],
    len: usize,
    pos: usize,
    quantum_seen: bool,
}

fn empty_subst() -> Canonical<ConstrainedSubst<VerifIr>> {
    Canonical {
        value: ConstrainedSubst {
            subst: Substitution::empty(VerifIr),
            constraints: Constraints::empty(VerifIr),
        },
        binders: CanonicalVarKinds::empty(VerifIr),
    }
}

impl MockStream {
    fn at(&self, i: usize) -> Item {
        // once exhausted the stream keeps saying NoMoreSolutions
        if i < self.len {
            self.items[i]
        } else {
            Item::NoMore
        }
    }
    fn result(&mut self, it: Item) -> AnswerResult<VerifIr> {
        match it {
            Item::Answer { ambiguous } => AnswerResult::Answer(CompleteAnswer { subst: empty_subst(), ambiguous }),
            Item::Floundered => AnswerResult::Floundered,
            Item::NoMore => AnswerResult::NoMoreSolutions,
            Item::Quantum => {
                self.quantum_seen = true;
                AnswerResult::QuantumExceeded
            }
        }
    }
}

impl AnswerStream<VerifIr> for &mut MockStream {
    fn peek_answer(&mut self, _should_continue: impl Fn() -> bool) -> AnswerResult<VerifIr> {
        let it = self.at(self.pos);
        self.result(it)
    }
    fn next_answer(&mut self, _should_continue: impl Fn() -> bool) -> AnswerResult<VerifIr> {
        let it = self.at(self.pos);
        self.pos += 1;
        self.result(it)
    }
    fn any_future_answer(&self, _test: impl Fn(&Substitution<VerifIr>) -> bool) -> bool {
        kani::any()
    }
}

/// contract stub for `SlgContextOps::identity_constrained_subst` (instantiates and
/// re-canonicalizes the goal through the generic folder, out of CBMC's reach):
/// post: the identity substitution over the goal's binders — the root goal used
/// here has no binders, so that is the empty substitution.
fn identity_stub<'a, I: Interner>(
    this: &SlgContextOps<'a, I>,
    _goal: &UCanonical<InEnvironment<Goal<I>>>,
) -> Canonical<ConstrainedSubst<I>>
where
    I: 'a, // makes 'a early-bound, like the impl's lifetime parameter of the original
{
    let i = this.program().interner();
    Canonical {
        value: ConstrainedSubst { subst: Substitution::empty(i), constraints: Constraints::empty(i) },
        binders: CanonicalVarKinds::empty(i),
    }
}

fn root_goal() -> UCanonical<InEnvironment<Goal<VerifIr>>> {
    UCanonical {
        canonical: Canonical {
            value: InEnvironment::new(&Environment::new(VerifIr), GoalData::CannotProve.intern(VerifIr)),
            binders: CanonicalVarKinds::empty(VerifIr),
        },
        universes: 1,
    }
}

fn make_solution_contract(items: [Item; MAXLEN], len: usize) {
    let db = MockDb;
    let ops = SlgContextOps::new(&db, 10, None);
    // (never dropped: the recursive drop glue of Goal/Ty is expensive for CBMC)
    let goal = core::mem::ManuallyDrop::new(root_goal());
    let mut stream = MockStream { items, len, pos: 0, quantum_seen: false };
    let first = stream.at(0);
    let second = stream.at(1);
    let result_md = core::mem::ManuallyDrop::new(ops.make_solution(&goal, &mut stream, || true));
    let result: &Option<Solution<VerifIr>> = &result_md;

    // (a)
    assert!(result.is_none() == (first == Item::NoMore), "None <=> no answers at all");
    // (b)
    let unique = matches!(result, Some(Solution::Unique(_)));
    assert!(
        unique == (first == Item::Answer { ambiguous: false } && second == Item::NoMore),
        "Unique <=> exactly one unconditional answer"
    );
    if let Some(Solution::Unique(s)) = result {
        let ok = s.binders.is_empty(VerifIr) && s.value.subst.is_empty(VerifIr) && s.value.constraints.is_empty(VerifIr);
        assert!(ok, "Unique carries the stream's answer unchanged");
    }
    // (c)
    if stream.quantum_seen {
        assert!(matches!(result, Some(Solution::Ambig(_))), "an interrupted stream only ever yields Ambig");
    }
    // (d)
    if first == Item::Floundered {
        assert!(matches!(result, Some(Solution::Ambig(_))), "floundered => Ambig");
    }
    // (e)
    if first == (Item::Answer { ambiguous: true }) {
        assert!(!unique);
    }
}

/// havoc stub for the anti-unifier entry point (never reached with empty
/// substitutions, but CBMC would still have to encode it)
fn merge_stub<I: Interner>(
    _interner: I,
    _root_goal: &Canonical<InEnvironment<Goal<I>>>,
    guidance: Canonical<Substitution<I>>,
    _answer: &Canonical<ConstrainedSubst<I>>,
) -> Canonical<Substitution<I>> {
    guidance
}

// ---------------------------------------------------------------------------
// Answers that carry a NON-EMPTY substitution ([?0 := str]).  Only the stream [answer, no-more] is run: it decides
// that Unique hands the stream's substitution back unchanged (clause (b) with a non-trivial answer).  The streams that
// matter for C01's "definite guidance never excludes a solution" - [answer, FLOUNDERED], where the pinned code answered
// Ambig(Definite(first answer)) although the table had just discarded its strands and answers (DESIGN section 6h) - were
// written as harnesses of this same contract (`sub_contract`) and do NOT finish: behind the peek make_solution calls
// CanonicalExt::map, i.e. instantiate + canonicalize through the generic folder, and CBMC gives no verdict in 900 s even
// though stream and substitution are concrete - and not on the repaired tree either, where the function returns right
// behind the peek (dropping a non-empty substitution goes through the recursive drop glue of Ty).  They are not registered; the clause is stated in `sub_contract` for the
// day it becomes checkable, and is NOT claimed.
fn one_subst() -> Canonical<ConstrainedSubst<VerifIr>> {
    let ty = TyKind::Str.intern(VerifIr);
    Canonical {
        value: ConstrainedSubst {
            subst: Substitution::from1(VerifIr, ty),
            constraints: Constraints::empty(VerifIr),
        },
        binders: CanonicalVarKinds::empty(VerifIr),
    }
}

struct SubStream {
    first_ambiguous: bool,
    second: Item,
    pos: usize,
}

impl SubStream {
    fn item(&self, i: usize) -> AnswerResult<VerifIr> {
        match i {
            0 => AnswerResult::Answer(CompleteAnswer { subst: one_subst(), ambiguous: self.first_ambiguous }),
            1 => match self.second {
                Item::Answer { ambiguous } => AnswerResult::Answer(CompleteAnswer { subst: one_subst(), ambiguous }),
                Item::Floundered => AnswerResult::Floundered,
                Item::NoMore => AnswerResult::NoMoreSolutions,
                Item::Quantum => AnswerResult::QuantumExceeded,
            },
            _ => AnswerResult::NoMoreSolutions,
        }
    }
}

impl AnswerStream<VerifIr> for &mut SubStream {
    fn peek_answer(&mut self, _should_continue: impl Fn() -> bool) -> AnswerResult<VerifIr> {
        self.item(self.pos)
    }
    fn next_answer(&mut self, _should_continue: impl Fn() -> bool) -> AnswerResult<VerifIr> {
        let r = self.item(self.pos);
        self.pos += 1;
        r
    }
    fn any_future_answer(&self, _test: impl Fn(&Substitution<VerifIr>) -> bool) -> bool {
        // what the real forest answers here: a floundered table has no cached answers and no strands left
        // (Table::mark_floundered), an exhausted one neither - "no future answer"
        false
    }
}

fn sub_contract(first_ambiguous: bool, second: Item) {
    let db = MockDb;
    let ops = SlgContextOps::new(&db, 10, None);
    let goal = core::mem::ManuallyDrop::new(root_goal());
    let mut stream = SubStream { first_ambiguous, second, pos: 0 };
    let result_md = core::mem::ManuallyDrop::new(ops.make_solution(&goal, &mut stream, || true));
    let result: &Option<Solution<VerifIr>> = &result_md;
    let unique = matches!(result, Some(Solution::Unique(_)));
    let definite = matches!(result, Some(Solution::Ambig(Guidance::Definite(_))));
    match second {
        Item::Floundered => {
            assert!(!unique && !definite, "floundered behind the first answer: no claim that every solution is an instance of it");
            assert!(matches!(result, Some(Solution::Ambig(_))));
        }
        Item::NoMore => {
            // not vacuous: the non-empty substitution does come back
            assert!(unique == !first_ambiguous, "Unique <=> exactly one unconditional answer");
            if let Some(Solution::Unique(s)) = result {
                assert!(s.value.subst.len(VerifIr) == 1, "Unique carries the stream's answer unchanged");
            }
            if first_ambiguous {
                assert!(definite, "a single ambiguous answer and nothing else: its substitution is definite guidance");
            }
        }
        Item::Quantum => {
            assert!(matches!(result, Some(Solution::Ambig(Guidance::Suggested(_)))), "interrupted behind the first answer: suggestion only");
        }
        Item::Answer { .. } => {}
    }
}

#[kani::proof]
#[kani::unwind(6)]
#[kani::stub(SlgContextOps::identity_constrained_subst, identity_stub)]
#[kani::stub(merge_into_guidance, merge_stub)]
fn k12_stream_sub_ans_end() {
    sub_contract(false, Item::NoMore);
}

include!("/verif/kani/chalk_engine/k12_cases.rs");
