"""vcheck replay <file>: re-run the obligation named in a replay file against
/repo's current working tree.  For Kani replays that carry a concrete playback
test, the test is additionally executed natively against the real crate
(`cargo kani playback`), i.e. the verifier's counterexample is replayed on the
real code.  Exit 1 if the obligation still fails, 0 if it now holds."""
import os
import re
import shutil
import sys

import catalog
from vlib import common, kani, verus, rsrc
from vlib.common import log


def run(path):
    txt = open(path).read()
    m = re.search(r"# replay for property (\w+), unit (\w+)(?:, harness (\w+))?", txt)
    if not m:
        log("not a replay file")
        return 2
    pid, uid, harness = m.group(1), m.group(2), m.group(3)
    scratch = common.scratch_copy("replay-" + pid)
    repo_dir = os.path.join(scratch, "repo")
    try:
        if uid in catalog.KANI_UNITS:
            u = dict(catalog.KANI_UNITS[uid])
            pb = re.search(r"## BEGIN-PLAYBACK\n(.*?)## END-PLAYBACK", txt, re.S)
            if pb:
                # copy harness modules into the scratch dir and append the concrete test
                mods = []
                for mm in u["mods"]:
                    src = os.path.join(kani.KANI_DIR, mm["harness"])
                    dst = os.path.join(scratch, os.path.basename(mm["harness"]))
                    shutil.copy(src, dst)
                    mods.append(dict(mm, harness=dst))
                with open(mods[0]["harness"], "a") as f:
                    f.write("\n" + pb.group(1) + "\n")
                u["mods"] = mods
            kani.inject(repo_dir, u)
            u["_harness_list"] = [harness]
            info = kani.run_unit(repo_dir, u, "quick", jobs=1)
            res = info["results"].get(harness)
            log(f"[replay] kani harness {harness}: {res['status'] if res else 'no result'}")
            if res:
                for fc in res["failed_checks"]:
                    log(f"  failed: {fc['description']} ({fc.get('file')}:{fc.get('line')})")
            still = bool(res and res["status"] == "FAILED")
            if pb:
                tname = re.search(r"fn (kani_concrete_playback_\w+)", pb.group(1))
                if tname:
                    cmd = ["cargo", "kani", "playback", "-Z", "concrete-playback", "-p", u["crate"], "--", tname.group(1)]
                    rc, out, err, wall, to = common.run(cmd, cwd=repo_dir, timeout=900)
                    log(f"[replay] native concrete playback `{tname.group(1)}` on the real crate: " + ("FAILED (violation reproduced)" if rc != 0 else "passed"))
                    log((out + err)[-1500:])
                    still = still or rc != 0
            return 1 if still else 0
        u = catalog.VERUS_UNITS[uid]
        info = verus.run_unit(repo_dir, u, "quick", scratch)
        log(f"[replay] verus unit {uid}: {info['status']}")
        for r in info["refuted"]:
            log(r["rendered"])
        return 1 if info["status"] == "refuted" else (0 if info["status"] == "verified" else 2)
    finally:
        common.remove_scratch(scratch)
