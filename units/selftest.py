"""Framework self test run by MANIFEST.setup_cmd: tools present, extractor and
parsers behave, catalogue consistent.  Builds nothing that is kept."""
import os
import shutil
import sys

import catalog
from vlib import rsrc, verus, kani


def run():
    ok = True
    for tool in ("verus", "cargo-kani", "rsync", "cargo"):
        if shutil.which(tool) is None:
            print("missing tool:", tool)
            ok = False
    src = 'impl Foo {\n    /// doc { \n    #[must_use]\n    pub fn a(&self) -> u32 {\n        let s = "}{"; // }\n        1\n    }\n}\n'
    f = rsrc.find_fn(src, "a", r"^impl Foo$")
    assert f.body.strip().endswith("}") and "1" in f.body, f.body
    t = verus._insert_contract("pub fn a(&self) -> u32 {\n 1 }", "    ensures r == 1,")
    assert "-> (r: u32)" in t and "ensures r == 1" in t, t
    d = []
    t = verus._drop_tracing("fn x() {\n    debug!(\"a {}\", f(1));\n    let y = 2;\n}", d)
    assert "debug!" not in t and "let y" in t
    for pid, plan in catalog.PROPERTY_UNITS.items():
        for uid, _ in plan:
            assert uid in catalog.KANI_UNITS or uid in catalog.VERUS_UNITS, (pid, uid)
        assert pid in catalog.PROPERTIES
    for u in catalog.KANI_UNITS.values():
        for m in u["mods"]:
            assert os.path.exists(os.path.join(kani.KANI_DIR, m["harness"])), m
    for u in catalog.VERUS_UNITS.values():
        assert os.path.exists(os.path.join(verus.VERUS_DIR, u["template"])), u
    out = "Thread 1: Checking harness a::b...\nThread 1: \nVERIFICATION RESULT:\n ** 0 of 5 failed\n\nVERIFICATION:- SUCCESSFUL\nVerification Time: 0.1s\n"
    r = kani.parse_output(out)
    assert r["b"]["status"] == "SUCCESSFUL" and r["b"]["checks"] == 5, r
    print("selftest", "ok" if ok else "FAILED")
    return 0 if ok else 1
