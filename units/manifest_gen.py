"""Regenerate /verif/MANIFEST.json from the catalogue so that it is always
consistent with what vcheck actually runs."""
import json
import os

import catalog

VERIF = os.path.dirname(os.path.dirname(os.path.abspath(__file__)))
BASELINE = ("cd /repo && cargo nextest run --workspace --no-fail-fast --test-threads 8 --offline "
            "|| cargo test --workspace --no-fail-fast --offline")


def build():
    checks = []
    for pid in sorted(catalog.PROPERTY_UNITS):
        m = catalog.PROPERTIES[pid]
        checks.append({
            "property_id": pid,
            "quick_cmd": f"bin/vcheck {pid} --tier quick",
            "thorough_cmd": f"bin/vcheck {pid} --tier thorough",
            "evidence_file": f"/verif/evidence/{pid}.json",
            "replay_cmd_template": "bin/vcheck replay {path}",
            "engine": "vcheck",
            "level_claimed": {"category": m["category"], "text": m["level_text"], "design_ref": m["design_ref"]},
            "level_note": m["level_note"],
            "technique": m["technique"],
        })
    return {
        "version": 1,
        "setup_cmd": "python3 bin/vcheck selftest",
        "hooks": {
            "guard": "cfg(kani)",
            "enable": "no hook is committed to /repo: every check rsyncs /repo's working tree to a scratch directory and appends "
                      "`#[cfg(kani)] #[path=\"/verif/kani/..\"] mod ..;` lines and `#[cfg_attr(kani, kani::requires/ensures(..))]` "
                      "attributes there (add-only); Verus units extract function text from the same tree",
            "baseline_off_cmd": BASELINE,
            "source_commits": [],
            "add_only": True,
        },
        "engines": [{
            "name": "vcheck", "path": "bin/vcheck",
            "serves_properties": sorted(catalog.PROPERTY_UNITS),
            "kind_free_text": "contract-based deductive verification driver: Kani 0.68 function contracts / harness contracts compiled inside the real crates, "
                              "and Verus 0.2026.09.13 on function text extracted verbatim from /repo on every run",
        }],
        "checks": checks,
        "notes": "Exit 2 = UNDECIDED (anchor lost, tool limit, vacuity guard) and is never an alarm. See DESIGN.md.",
        "not_applicable": [{"property_id": k, "reason": v} for k, v in sorted(catalog.NOT_APPLICABLE.items())],
    }


def write():
    m = build()
    with open(os.path.join(VERIF, "MANIFEST.json"), "w") as f:
        json.dump(m, f, indent=1)
        f.write("\n")
    print("MANIFEST.json written:", len(m["checks"]), "checks,", len(m["not_applicable"]), "not applicable")
