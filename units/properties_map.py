"""Which units decide which property, and what is claimed (feeds MANIFEST.json)."""
from catalog import P, NOT_APPLICABLE, PROPERTY_UNITS

P("C25", [("K1", r"^k1_(c_db|c_bv|l_shift)"), ("K2", None), ("K2S", None), ("V16", None), ("V32", None)],
  "proof",
  "Kani function contracts on the real DebruijnIndex/BoundVar shift functions, proved over the full u32/usize domains "
  "(loop-free, so complete), and the shift laws of C25 proved as lemmas over those contracts (stub_verified). "
  "Verus proves on the verbatim text that the DEFAULT free-variable callbacks of both folder traits give back the same occurrence (index kept, depth shifted in by exactly outer_binder, "
  "a constant's type folded at the same depth) — the leaf of 'a folder that changes nothing returns an equal term' — and that the three callbacks of Subst (the leaf of Binders::substitute) "
  "return, for a variable of the eliminated binder, exactly parameters[index] shifted in by outer_binder, and for a variable of an enclosing binder the same index one level down (V32, both branches, all three kinds). "
  "Leaf level only: the lifting to whole terms through TypeFoldable is an assumption.",
  "Assumed: derived/hand-written TypeFoldable impls are homomorphic and bump the binder depth exactly at binders "
  "(fold_is_homomorphic); Kani/CBMC soundness.",
  "contract-based deductive verification: Kani function contracts (proof_for_contract + stub_verified), loop-free full-domain; Verus on mechanically extracted function text")

P("C17", [("V1", None), ("V13", None), ("V34", None)],
  "proof",
  "Verus proves, on the verbatim text of Solution::combine and its helpers, the strongest functional postcondition "
  "(r == spec_combine) and 'never claims more than either candidate'; commutativity is a lemma over that contract; and on the verbatim text of "
  "MayInvalidate::aggregate_tys that the check 'no future answer can change the guidance' answers false only when the new answer's type is an instance of the current guidance's type "
  "(one level, for every pair of type constructors) and, on MayInvalidate::aggregate_consts, only when the new answer's constant is an instance of the guidance's (types are, and a variable in the guidance / the same placeholder / equal concrete values), and the per-argument dispatcher aggregate_generic_args only for an argument that is an instance of the guidance's argument; and on the verbatim text of AntiUnifier::aggregate_consts and the three fresh-variable constructors (V34) that two CONSTANTS are merged into the "
  "first one only when both answers carry the same placeholder or concrete values the interner calls equal, and into a fresh unknown of the anti-unifier's universe (typed like the first) in every other case - so both are instances of the result. Unbounded.",
  "Assumed: derived PartialEq/Clone semantics, is_identity_subst / Constraints::is_empty abstract; of the anti-unifier only the constant leaf and the variable constructors are reached: "
  "AntiUnifier::aggregate_tys / aggregate_lifetimes / aggregate_generic_args / merge_into_guidance are not; argument lists are abstract in V13.",
  "contract-based deductive verification: Verus on mechanically extracted function text")

P("C27", [("K5", None), ("K5L", None)],
  "model_checking",
  "Kani/CBMC on the real in_place.rs with drop-counting elements: for every failure position (or none), every capacity slack, "
  "identical / different / zero-sized layouts and the box variant, each element is dropped exactly once on failure and never on success, "
  "with all pointer, allocation and deallocation checks of CBMC on. The panic path is covered through the contract of the drop guard. "
  "BOUNDED in the vector length (3 quick / 6 thorough); not counted as proved.",
  "Assumed: unwinding runs the same drop glue as early return; Kani's model of Vec/Box raw-parts functions; bound on length.",
  "contract-based verification with Kani harness contracts, bounded unwinding (vector length), unwinding assertions on")

P("C15", [("V7", None)],
  "proof",
  "Verus, modular and unbounded, on the verbatim text of InferenceTable::relate/snapshot/rollback_to/commit: relate returning Err implies the table's "
  "observable state (ena contents, variable list, max universe) equals the state at entry, whatever the unifier did in between (its body is havoc). "
  "The second sentence of C15 (argument order) is not decided by this unit.",
  "Assumed: ena's snapshot/rollback/commit contract; the unifier keeps ena's snapshot stack balanced; Vec::clone spec of vstd.",
  "contract-based deductive verification: Verus on mechanically extracted function text, callee contracts + havoc")

P("C19", [("K13", None), ("K13O", None), ("V15", None)],
  "model_checking",
  "Kani on the real set_priorities over real petgraph forests: for every labelled DAG on <= 3 impls (thorough: selected 4-impl DAGs) no panic, every impl gets a priority, "
  "and priorities strictly increase along every specialization edge; SpecializationPriorities::insert is replaced by its contract there (kani::stub); that contract is proved, unbounded, by Verus on the verbatim "
  "text of insert over an abstract IndexMap. BOUNDED in the number of impls (exhaustive below the bound). "
  "The genuine defect this found (3-impl chain panicked) is repaired in /repo by commit cc02e05.",
  "Assumed: the forest handed to set_priorities is a DAG with edges from less to more special impls (the disjoint/specializes solver queries are not verified); petgraph and indexmap as compiled by Kani.",
  "contract-based verification with Kani: harness contracts + contract stub (kani::stub) for the callee, graphs enumerated concretely")

P("C05", [("V10", None), ("V3", None), ("V18", None), ("V23", None), ("K11", r"^k11_stack")],
  "model_checking",
  "Partial (function-level links): Verus proves on the verbatim text that exactly the goals `T: AutoTrait`, `T: #[coinductive] Trait`, `WellFormed(T: Trait)` and universal "
  "quantifications of those are treated coinductively (every other goal kind is inductive), that coinductive goals start the fixed-point iteration at the top "
  "(Unique, trivially true, over the goal's own binders) and inductive ones at NoSolution, that iteration stops only when the answer repeats or is ambiguous, and that solve_goal, on finding a goal already in the search graph, returns that node's answer and ALWAYS lowers the "
  "caller's minimums to the node's links (so an ancestor that relied on a provisional answer is never cached as if self-contained) and rejects mixed cycles, and that solve_new_subgoal returns with the goal's stored answer equal to what its last iteration produced, that answer being a fixed point "
  "(reached_fixed_point(assumed, produced)) unless the iteration did not depend on the goal's own provisional answer (all Verus, unbounded, partial correctness for the loop); "
  "Kani shows the cycle check rejects a cycle exactly when it mixes inductive and coinductive stack entries (BOUNDED: <= 4/6 entries).",
  "Not reached: push_auto_trait_impls / constituent types (iterator+closure code), delayed subgoals in the SLG engine, cache rollback. Assumed: finite goals, trait flags abstract.",
  "contract-based deductive verification: Verus on mechanically extracted function text")

P("C03", [("V5", None), ("V20", None), ("V25", None)],
  "other",
  "Partial (function-level links; level `other` because ONE obligation is refuted as a recorded known finding - every other obligation is an unbounded Verus proof): Verus proves on the verbatim text of the SLG answer stream that every yielded answer is the table's answer at the stream's current index with "
  "binders, substitution, constraints and ambiguity flag unchanged and no delayed subgoals (answers awaiting refinement are never yielded), that next_answer strictly advances the "
  "index (an index is handed out at most once) and that QuantumExceeded is only reported when the caller's callback returned false. On the verbatim text of "
  "merge_answer_into_strand it proves that consuming answer k of a positive subgoal queues, on the table being evaluated and right behind what was queued, a copy of the strand asking for answer k+1 "
  "(unless the answer is the trivial substitution or was set aside as ambiguous), that nothing else is queued, that no stored answer changes, and that merging an ambiguous answer marks the strand ambiguous; "
  "on the verbatim text of on_positive_cycle that a strand which ran into a positive cycle is handed back to the queue of the table being evaluated, whatever the state of the table it waits for, and nothing else changes. "
  "On the real Table struct (real Vec / VecDeque, hash map abstract) it proves that push_answer publishes an answer exactly when no answer with the same canonical substitution was published before, "
  "returns its index, keeps 'published answers pairwise differ in their substitution' invariant, and that answer(i) / next_answer_index / enqueue_strand are what the other units assume. "
  "Unbounded, partial correctness.",
  "KNOWN FINDING (known_findings.json): merge_answer_into_strand panics ('Negative subgoal had delayed_subgoals') when a negative literal's subgoal sits on a coinductive cycle - the obligation 'the panic is unreachable' is refuted and nothing in the callers establishes it (failing input: notes/c03_negative_coinductive.chalk, goal `X: C1, not { X: C2 }`). "
  "Not reached: soundness/completeness of the rest of the state machine behind ensure_root_answer (havoc here), that answers reaching push_answer are canonicalized (so that equal answers have equal substitutions), "
  "the solve_multiple callback loop (&mut dyn FnMut is outside Verus), termination.",
  "contract-based deductive verification: Verus on mechanically extracted function text, callee havoc contracts, in-place loop invariant")

P("C07", [("V2", None), ("V9", None)],
  "proof",
  "Partial (one anchored mechanism): Verus proves on the verbatim text of with_priorities that a high-priority candidate (impl-provided normalization) overrides a low-priority one "
  "(placeholder fallback) exactly when both are for the same inputs, and otherwise the candidates are combined; the result is independent of argument order; and on the verbatim text of "
  "Unifier::relate_alias_ty that relating a projection with a type records exactly the goal `<projection> == type` in the unifier's environment (invariant position; nothing else happens), resp. "
  "`<projection> == ?X` for a fresh root-universe unknown that is then related to the type at the same variance. Unbounded.",
  "Not reached: clause generation for associated types (program_clauses.rs, clauses.rs), the solver search itself. Assumed: calculate_inputs abstract, Solution::combine's contract (V1).",
  "contract-based deductive verification: Verus on mechanically extracted function text")

P("C13", [("V1", None), ("V2", None), ("V18", None), ("V23", None), ("K1", r"^k3_l_priority_meet")],
  "proof",
  "Partial (function-level links): commutativity of Solution::combine (Verus lemma over its verified functional contract), argument-order independence of with_priorities (Verus), "
  "commutativity/associativity/idempotence of the ClausePriority meet (Kani, full domain), and the tabling step solve_goal recording every dependency on a provisional answer "
  "whatever the order in which sibling goals are evaluated (Verus, V18) — without it the recursive solver's cached answers depend on impl order — and the fixed-point loop leaving no result computed against a "
  "superseded answer in the graph when it stops on a changed answer (Verus, V23 clause G: on the pinned code `exists<T> { Vec<T>: Foo }` was `Unique` or `Ambiguous` depending on the order of two where-clauses, DESIGN section 6g). Unbounded / complete.",
  "Not reached: iteration order of impls, the environment hash set, arrival order of answers in merge_into_guidance. Assumed: two trivially-true solutions of one query are equal.",
  "contract-based deductive verification: Verus lemmas over verified contracts + Kani full-domain harness")

P("C26", [("K4", None), ("V0", None)],
  "model_checking",
  "Kani proves for every TyKind / LifetimeData / ConstValue / GenericArgData / WhereClause variant, with ARBITRARY 16-bit cached flags on every child type, that the real compute_flags "
  "equals the occurrence-flag table (union of the local flag, the children's flags and the lifetime/const flags), and that intern_ty stores it; a Verus lemma lifts this one-level "
  "equation to whole types by structural induction. Complete in the flag domain; BOUNDED only in argument-list length (<= 2 arguments, <= 1 dyn bound).",
  "Assumed: every TyData comes from intern_ty; rigid AssociatedType/OpaqueType count as applications; STILL_FURTHER_SPECIALIZABLE masked out.",
  "contract-based verification: Kani harness contracts per enum variant (symbolic child flags) + Verus induction lemma")

P("C16", [("K8", None), ("K1", r"^k1_(c_bv_shifted_in_from|c_db_shifted_in_from|l_universe)"), ("V21", None), ("V30", None), ("V31", None)],
  "model_checking",
  "Partial (leaf rules of the first sentence + the second sentence). Verus proves on the verbatim text of the Canonicalizer's leaf methods that an unbound unknown of any kind is replaced by "
  "the innermost bound variable (seen from under the binders already entered) whose index is the position of its UNION-FIND ROOT in free_vars - reused when the class was met before, appended with the "
  "unknown's kind at its first occurrence - so unified unknowns share one index and numbering follows first occurrence; that placeholders are kept and their universe is folded into max_universe; that "
  "free_vars only ever grows and the union-find classes are not modified (unbounded; Canonicalizer::add's own contract is assumed); and on the verbatim text of the two universe-map folders that EVERY kind of "
  "placeholder - type, lifetime, constant - has its universe sent through map_universe_to_canonical resp. map_universe_from_canonical with its index kept (V30; refuted for constants on the pinned tree: genuine defect, "
  "repaired by /repo commit 80b6cff, see known_findings.json). Kani on the real UniverseMap code proves, invariant-style, that `new` establishes and `add` preserves a strictly increasing, rooted universe "
  "vector, and that for EVERY such vector universe compression is order preserving, injective, invertible below the number of universes and maps out-of-range canonical universes "
  "strictly above every universe of the query (universe values fully symbolic); plus the index shift applied to the fresh bound variable (K1). BOUNDED in the vector length (<= 3).",
  "Not reached: the body of Canonicalizer::add (iterator+closure code outside Verus; in Kani the Clone glue of GenericArg reached through ena makes CBMC time out), into_binders, "
  "the 'exactly when' over whole values, the instantiate/canonicalize round trip, inversion. Assumed: binary_search, Vec::insert as compiled by Kani.",
  "contract-based verification: Kani harness contracts compiled inside chalk-solve (tracing replaced by a no-op stand-in), bounded; Verus on mechanically extracted function text")

P("C09", [("K11", None), ("V3", None), ("V17", None), ("V28", None), ("V27", None)],
  "model_checking",
  "Partial (one invariant + the stopping rule): Kani proves on the real recursive-solver Stack that its depth can never exceed the configured overflow_depth (symbolic): a push below "
  "the limit adds exactly one entry, a push at the limit aborts without adding one; Verus proves reached_fixed_point stops exactly when the answer repeats or is ambiguous, and that the two size guards do what bounds the work: an oversize "
  "subgoal is never tabled by the SLG engine (abstract_positive_literal returns None) and an oversize obligation is never queued by the recursive solver (push_obligation marks cannot_prove). "
  "Verus proves the push half of the stack contract for EVERY height on the real struct (V27: below the limit exactly one entry is added and the height stays <= overflow_depth). "
  "Verus also proves that the measure the limit is compared with is the size of the largest outermost type of a goal, each type measured on its own (TySizeVisitor::visit_ty, V28). "
  "BOUNDED in the number of entries (4/6). Termination proper is not claimed: neither tool proves it here.",
  "Not reached: termination of the SLG engine (subgoal abstraction, truncation), of Fulfill::fulfill and of the fixed-point loop itself; 'without panicking' is not claimed (the overflow push panics by design).",
  "contract-based verification with Kani harness contracts (bounded) + Verus on extracted text")

P("C08", [("V11", None), ("V29", None), ("V33", None)],
  "proof",
  "Partial: Verus proves on the verbatim text of add_sized_program_clauses, add_copy_program_clauses, add_clone_program_clauses (same table as Copy) and add_tuple_program_clauses, for EVERY TyKind variant and variable kind, that exactly the clause dictated by the "
  "language table is generated (Sized: never for str/slices/extern types, nothing built in for dyn/alias/placeholder/opaque, last field for ADTs, last element for tuples, the fact for "
  "everything else, flounder on a general unknown; Copy: all elements for tuples, the element for arrays, the captures for closures, the fact for fn items/pointers, nothing built in otherwise), "
  "and on the verbatim text of the two Sized helpers that the ADT rule conditions on exactly the struct's LAST field (the bare fact if there is none) and the tuple rule on exactly the LAST element (the fact for the 0-tuple) (V29), "
  "and on the verbatim text of last_field_of_struct (its two closures annotated in place, edit I5) that this 'last field' is None for enums and unions and, for a struct, the LAST field of its variant with the struct's arguments substituted, None if it has no field (V33). Unbounded.",
  "Not reached: FnPtr / Fn* / Unsize / Pointee / DiscriminantKind / Coroutine, the outer dispatcher (its match sits in a closure), the body of needs_impl_for_tys (iterator map), Binders::{map_ref, filter_map, substitute} (abstract), how explicit impls combine (solver).",
  "contract-based deductive verification: Verus on mechanically extracted function text with a ghost clause log")

P("C29", [("V9", None), ("K1", r"^k3_"), ("K7", None)],
  "model_checking",
  "Partial: Verus proves on the verbatim text that the lifetime requirements recorded for a position are exactly those dictated by its variance (contravariant: a: b; covariant: b: a; "
  "invariant: both), that an unknown lifetime is bound only for an invariant relation whose value its universe can name and otherwise yields exactly those requirements, and — as a lemma "
  "over these contracts and the verified variance composition — that `&'a T <: &'b T` requires exactly `'a: 'b` (unbounded). Kani proves the variance algebra (full domain) and that "
  "zip_substs relates argument i at ambient∘declared[i], in order, stopping at the first failure (BOUNDED: <= 3 arguments).",
  "Also (V9) the projection rule: at a co-/contravariant position a projection is equated with a fresh unknown which is related to the other side at the SAME variance; and the dispatcher "
  "of a bare lifetime position itself, Unifier::relate_lifetime_lifetime (extracted text, reference patterns dereferenced mechanically, edit D4): over the NORMALIZED lifetimes, for every pair of "
  "LifetimeData variants, two unknowns are unified, an unknown on the left goes to unify_lifetime_var at the given variance and an unknown on the RIGHT at the inverted variance with the sides swapped "
  "(universe of the placeholder, the root for 'static/erased/error), two known lifetimes record exactly the variance-dictated requirements unless they are the same, an error lifetime requires nothing; always Ok. "
  "Not reached: relate_ty_ty's arms themselves (Ref/Raw/Adt/Tuple/FnDef/Function), 'structures agree', the two-unknowns flounder rule.",
  "contract-based deductive verification: Verus on extracted text + Kani function contracts / harness contracts")

P("C14", [("K1", r"^k1_(c_ui|l_universe)"), ("V9", None), ("V8", None)],
  "proof",
  "Partial (leaf decisions only): Kani (loop-free, full domain) and Verus both prove that can_see is the counter order (total preorder, `next` strictly above); Verus proves on the verbatim "
  "text that an unknown lifetime is bound to a value only if the relation is invariant and the unknown's universe can see the value's universe, constraints being emitted otherwise; and the leaf decisions of the occurs check: a placeholder is accepted iff the unknown's universe can see it, an invisible placeholder "
  "lifetime is replaced by a fresh variable required to equal it, an unbound type variable is rejected exactly when it is in the class of the variable being bound (the occurs check proper), "
  "and otherwise has its universe lowered to the binder's. Unbounded / complete for these functions.",
  "Not reached: soundness and most-generality for whole terms (Zip / TypeFoldable induction, ena's union-find), the occurs check on bound variables' values (generic fold), "
  "generalize_ty, InferenceValue::unify_values (reference patterns in Verus; Clone glue blow-up in Kani).",
  "contract-based deductive verification: Kani full-domain function contracts + Verus on extracted text")

P("C11", [("K12", r"_q"), ("V5", None), ("V4", None), ("V19", None), ("V22", None), ("V23", None)],
  "model_checking",
  "Partial (first sentence, function-level links): Kani runs the real make_solution on every answer stream up to the bound that contains an interruption and shows the result is "
  "always Some(Ambig(_)) — never Unique, never 'no solution'; Verus proves the SLG stream reports QuantumExceeded only when the caller's callback returned false, and that an "
  "interrupted iteration of the recursive solver returns Ambig(Unknown) without touching the solver state, and that the fixed-point loop around it never returns an answer that is not a fixed point of its last iteration - interrupted or not - so an interruption cannot freeze a provisional definite answer (V23). BOUNDED (stream length <= 2/3) for make_solution; Verus parts unbounded.",
  "Second sentence: decided for one mechanism only — Verus unit V19 states that solve_goal never makes an answer permanent while the callback says stop; this was REFUTED on the pinned tree "
  "(genuine defect: the recursive solver with its cache returned the cached interrupted `Ambiguous` to every later solve; repaired by /repo commit 3ae5951, see known_findings.json) and holds on the repaired tree. "
  "SLG side of the second sentence, one mechanism: an interrupted solve ends by dropping its SolveState, and Verus unit V22 proves that this returns every strand still held by the stack to the end of "
  "its own table's queue and empties the stack, so the forest a later solve sees has lost nothing; that the forest then answers like a fresh one is a history property and is not reached (see C10).",
  "contract-based verification: Kani harness contract over enumerated streams + Verus on extracted text")

P("C01", [("K12", None), ("V1", None), ("V3", None), ("V18", None), ("V23", None), ("V24", None), ("V31", None)],
  "model_checking",
  "Partial (aggregation contract only): Kani runs the real make_solution on every answer stream up to the bound: Unique iff exactly one unconditional answer, 'no solution' iff the "
  "stream is empty, nothing definite after a flounder or an interruption, the Unique payload is the stream's answer unchanged; Verus proves combine never manufactures a Unique, "
  "that the recursive fixed point starts from bottom/top as the semantics requires, and that the tabling step solve_goal records every dependency on a provisional answer (V18), and that the answer solve_new_subgoal leaves for a goal is a fixed point of its last iteration unless that iteration did not depend on the goal itself (V23), and is made permanent exactly when its SCC is complete (V24). For negative goals, Verus checks that the folder which turns universally quantified names into existentials before a `not { }` is refuted overrides the callback of EVERY kind of placeholder (V31: a missing one falls back to the trait default, which keeps the name; refuted for constants on the pinned tree - genuine defect `forall<const N> { not { S<N>: Trait } }` = Unique, repaired by /repo commit e224150). BOUNDED (stream length <= 2/3); Verus parts unbounded.",
  "Assumed: the answer stream itself is sound and complete, i.e. SLG resolution and the recursive search against the program's logical meaning — the bulk of C01 — are NOT verified "
  "(no function of chalk has the logical meaning as an argument or view; logic.rs is out of reach of both tools). NOT decided either: make_solution's guidance when the answers carry a non-empty "
  "substitution - the harnesses for 'a table that flounders behind the first answer gives no definite guidance' (the defect repaired by dda75a5, DESIGN section 6h) do not finish in CBMC, "
  "so K12 runs answers with the empty substitution plus one [answer, no-more] stream with a one-element substitution.",
  "contract-based verification: Kani harness contract over enumerated streams + Verus on extracted text")

P("C28", [("V5", None), ("K12", r"_ans"), ("V1", None), ("K8", r"laws"), ("V8", None), ("V30", None)],
  "model_checking",
  "Partial: Verus proves the SLG stream's CompleteAnswer copies binders, substitution and constraints of the table's answer unchanged; Kani shows make_solution's Unique payload is that "
  "answer unchanged; Verus shows into_guidance / definite_subst / constrained_subst keep the binders with the substitution; Kani shows map_universe_from_canonical sends every canonical "
  "universe of the query back to one of the query's own universes, and Verus (V30) that the folder applying that map does so for placeholders of every kind; Verus (V8) shows every unknown captured in the value of a variable is moved into a universe that variable can name "
  "(so a solution mentions no universe the query cannot name). BOUNDED where Kani is used.",
  "Not reached: arity/kind agreement of the substitution with the query's binders (established inside resolution and canonicalisation), Fulfill::solve.",
  "contract-based verification: Verus on extracted text + Kani harness contracts")

P("C12", [("V22", None), ("V26", None), ("V27", None)],
  "proof",
  "Partial (the SLG recovery mechanism named in the anchors): Verus proves on the verbatim text of <SolveState as Drop>::drop, SolveState::unwind_stack and the Stack methods they use that, "
  "whatever the stack looks like when the solve state is dropped, afterwards the stack is empty and every strand the stack held - the top entry's active strand included - is back at the end of the "
  "queue of ITS OWN table, in stack order, each exactly once, and nothing else of any table changed; unwind_stack terminates. For the recursive solver it proves on the verbatim text of "
  "RecursiveContext::solve_root_goal (the engine's only entry point) that from ANY state an abandoned solve may have left behind it neither panics nor solves on top of the leftovers: solve_goal is entered with an empty "
  "stack and an empty search graph, the cache kept (V26) - this contract was REFUTED on the pinned tree (genuine defect, repaired by /repo commit 3e7a847, see known_findings.json). "
  "Unbounded, for every stack height and table assignment.",
  "Not reached: that the forest with all strands re-queued answers like a fresh one (a statement about the whole state machine), strands held in local variables of the state machine at the moment of the "
  "panic (StackEntry's FIXME), 'tables are inserted only after build_table returns', that a panic leaves the recursive engine's CACHE consistent (it only ever receives completed SCCs, V24). Assumed: Rust drops the "
  "SolveState on unwinding; the stack invariant 'every entry below the top holds its suspended strand'.",
  "contract-based deductive verification: Verus on mechanically extracted function text, in-place loop invariant with termination measure, proved sequence lemmas")

P("C02", [("V23", None), ("V3", None), ("V17", None), ("V28", None), ("V18", None), ("V24", None)],
  "proof",
  "Partial (two of the four mechanisms named in the anchors, recursive solver): Verus proves on the verbatim text that the fixed-point iteration of solve_new_subgoal starts from 'no solution' for an "
  "inductive goal (initial_value, V3) and returns only with an answer that is a fixed point of its last iteration - or that did not depend on the goal itself - stored unchanged for the goal (V23); that the "
  "iteration stops exactly when the answer repeats or is ambiguous (reached_fixed_point, V3); and that the size limit acts as stated: an oversize subgoal is never tabled / an oversize obligation is marked "
  "cannot-prove, nothing else is (V17); and that what the limit is compared with is the size of the LARGEST outermost type of the goal, each measured on its own (TySizeVisitor::visit_ty resets its running "
  "count after every outermost type, counts a bound unknown as the type it is bound to, and leaves its depth as it found it, V28); and that the tabling step around the loop records every dependency on a "
  "provisional answer and makes an answer permanent only when its SCC is complete (solve_goal, V18 / V24), so that a closed goal is never answered from a stale provisional result. Unbounded; partial correctness for the loop.",
  "Not reached: 'never Ambiguous for goals without unknowns' as a whole-search statement - Fulfill's obligation loop (mut self, iterator code, P25), the SLG side (on_no_strands_left, clear_strands_after_cycle: "
  "closures over &mut self), and that the answer is the one the logical meaning dictates (C01).",
  "contract-based deductive verification: Verus on mechanically extracted function text, ghost history in the abstract search graph, in-place loop invariant")

P("C10", [("V24", None), ("V18", None), ("V23", None)],
  "proof",
  "Partial (the recursive solver's cache discipline named in the anchors): Verus proves on the verbatim text of RecursiveContext::solve_goal that a cache hit returns the cached answer and changes nothing (V18); "
  "that for a new goal the answer returned is what the goal's last fixed-point iteration produced - the same whether or not a cache is configured; that the goal's node and everything above it are made permanent "
  "in ONE move_to_cache batch headed by the goal and carrying the returned answer exactly when the iteration's minimums do not reach below the goal's own depth-first number (its SCC is complete) and the caller has not asked to stop, are "
  "discarded by rollback_to instead when caching is disabled or the solve was interrupted, and that otherwise NOTHING is made permanent: the node stays in the graph, off the stack, with the returned answer and with its links recorded (V24), "
  "so that every later hit lowers its caller's minimums (V18, clause B); and that when the fixed-point loop stops although the goal's answer still CHANGED in its last iteration "
  "(allowed once the answer is ambiguous) nothing above the goal's own node is left in the graph, so no result computed against the superseded answer can be made permanent (V23, clause G - the contract "
  "that exposed the defect repaired by c7cd17c, DESIGN section 6g). Unbounded.",
  "Not reached: that answers cached this way equal what a fresh solver computes (needs soundness of the whole search, C01), the SLG forest's table reuse (get_or_create_table_for_ucanonical_goal: FxHashMap + "
  "state machine), the bodies of SearchGraph::rollback_to / move_to_cache (hash-map retain with closures; their effect on the node sequence is an assumed contract). The known finding of C11 (an INTERRUPTED "
  "answer is cached too) is reported under C11, not here.",
  "contract-based deductive verification: Verus on mechanically extracted function text, ghost history and ghost cache-batch log in the abstract search graph, modular use of V23's proved contract")

# ---- not (yet) claimed
NOT_APPLICABLE['C04'] = 'relational property between two whole solvers; no function has a contract that mentions both'
NOT_APPLICABLE['C06'] = 'the closure is computed by program_clauses_for_env (hash sets, iterator adaptors, logging) and a TypeVisitor; no extractable function carries the property'
NOT_APPLICABLE['C18'] = "could_match is one generic Zip-driven recursion (MatchZipper over the derive(Zip) machinery, with a closure inside the match): not extractable for Verus, and two Kani attempts (symbolic head kinds; concrete head pairs with symbolic leaf children) needed 5-9 GB and did not finish in 7 minutes per harness even for leaf-vs-leaf — recorded in DESIGN.md; no bounded stand-in small enough to be worth claiming"
NOT_APPLICABLE['C20'] = 'the orphan rule is realised by clause generation (closures, iterators, logging) plus a solver run; no contract within reach expresses it'
NOT_APPLICABLE['C21'] = 'solver-mediated; wf.rs builds goals with iterator chains and closures'
NOT_APPLICABLE['C22'] = 'fmt::Write-based rendering and a generated LALRPOP parser; Verus has no string reasoning and CBMC does not get through core::fmt + parser tables'
NOT_APPLICABLE['C23'] = 'same as C22 plus two whole solver runs'
NOT_APPLICABLE['C24'] = 'absence of panics over all byte strings in a generated parser and a 2 kLoC lowering pass is beyond CBMC/Verus here'
_PENDING = ['C01', 'C03', 'C05', 'C07', 'C08', 'C09', 'C11', 'C13', 'C14', 'C15', 'C16', 'C18', 'C19', 'C26', 'C27', 'C28', 'C29']
for _p in _PENDING:
    if _p not in PROPERTY_UNITS and _p not in NOT_APPLICABLE:
        NOT_APPLICABLE[_p] = "not claimed at this commit: the units planned for it in DESIGN.md section 5 are not built yet"
