"""Unit catalogue: unit id -> tool, crate, anchors, contracts, bounds; and the
property -> units map.  See DESIGN.md section 4."""

LIB = "chalk-ir/src/lib.rs"
NO_OVF = "self.depth as u64 + outer_binder.depth as u64 <= u32::MAX as u64"

KANI_UNITS = {}
VERUS_UNITS = {}


def K(u):
    KANI_UNITS[u["id"]] = u
    return u


def V(u):
    VERUS_UNITS[u["id"]] = u
    return u


# --------------------------------------------------------------------------- K1
K({
    "id": "K1",
    "title": "ir_index + ir_variance: de Bruijn / universe index arithmetic and the variance algebra (chalk-ir/src/lib.rs)",
    "crate": "chalk-ir",
    "complete": True,   # loop-free, full machine domains
    "bound": None,
    "mods": [{"into": LIB, "harness": "chalk_ir/k1_index.rs", "name": "verif_k1"}],
    "contracts": [
        {"file": LIB, "within": r"^impl DebruijnIndex$", "fn": "within", "path": "DebruijnIndex::within",
         "attrs": ["kani::ensures(|r: &bool| *r == (self.depth < outer_binder.depth))"]},
        {"file": LIB, "within": r"^impl DebruijnIndex$", "fn": "shifted_in_from", "path": "DebruijnIndex::shifted_in_from",
         "attrs": [f"kani::requires({NO_OVF})",
                   "kani::ensures(|r: &DebruijnIndex| r.depth as u64 == self.depth as u64 + outer_binder.depth as u64)"]},
        {"file": LIB, "within": r"^impl DebruijnIndex$", "fn": "shifted_out_to", "path": "DebruijnIndex::shifted_out_to",
         "attrs": ["kani::ensures(|r: &Option<DebruijnIndex>| match r { None => self.depth < outer_binder.depth, "
                   "Some(d) => self.depth >= outer_binder.depth && d.depth == self.depth - outer_binder.depth })"]},
        {"file": LIB, "within": r"^impl DebruijnIndex$", "fn": "shifted_in", "path": "DebruijnIndex::shifted_in",
         "attrs": ["kani::requires(self.depth < u32::MAX)",
                   "kani::ensures(|r: &DebruijnIndex| r.depth == self.depth + 1)"]},
        {"file": LIB, "within": r"^impl DebruijnIndex$", "fn": "shifted_out", "path": "DebruijnIndex::shifted_out",
         "attrs": ["kani::ensures(|r: &Option<DebruijnIndex>| match r { None => self.depth == 0, "
                   "Some(d) => self.depth > 0 && d.depth == self.depth - 1 })"]},
        {"file": LIB, "within": r"^impl BoundVar$", "fn": "bound_within", "path": "BoundVar::bound_within",
         "attrs": ["kani::ensures(|r: &bool| *r == (self.debruijn.depth < outer_binder.depth))"]},
        {"file": LIB, "within": r"^impl BoundVar$", "fn": "shifted_in_from", "path": "BoundVar::shifted_in_from",
         "attrs": ["kani::requires(self.debruijn.depth as u64 + outer_binder.depth as u64 <= u32::MAX as u64)",
                   "kani::ensures(|r: &BoundVar| r.index == self.index && "
                   "r.debruijn.depth as u64 == self.debruijn.depth as u64 + outer_binder.depth as u64)"]},
        {"file": LIB, "within": r"^impl BoundVar$", "fn": "shifted_in", "path": "BoundVar::shifted_in",
         "attrs": ["kani::requires(self.debruijn.depth < u32::MAX)",
                   "kani::ensures(|r: &BoundVar| r.index == self.index && r.debruijn.depth == self.debruijn.depth + 1)"]},
        {"file": LIB, "within": r"^impl BoundVar$", "fn": "shifted_out_to", "path": "BoundVar::shifted_out_to",
         "attrs": ["kani::ensures(|r: &Option<BoundVar>| match r { None => self.debruijn.depth < outer_binder.depth, "
                   "Some(b) => self.debruijn.depth >= outer_binder.depth && b.index == self.index && "
                   "b.debruijn.depth == self.debruijn.depth - outer_binder.depth })"]},
        {"file": LIB, "within": r"^impl BoundVar$", "fn": "shifted_out", "path": "BoundVar::shifted_out",
         "attrs": ["kani::ensures(|r: &Option<BoundVar>| match r { None => self.debruijn.depth == 0, "
                   "Some(b) => self.debruijn.depth > 0 && b.index == self.index && "
                   "b.debruijn.depth == self.debruijn.depth - 1 })"]},
        {"file": LIB, "within": r"^impl BoundVar$", "fn": "index_if_bound_at", "path": "BoundVar::index_if_bound_at",
         "attrs": ["kani::ensures(|r: &Option<usize>| *r == if self.debruijn.depth == debruijn.depth { Some(self.index) } else { None })"]},
        {"file": LIB, "within": r"^impl BoundVar$", "fn": "index_if_innermost", "path": "BoundVar::index_if_innermost",
         "attrs": ["kani::ensures(|r: &Option<usize>| *r == if self.debruijn.depth == 0 { Some(self.index) } else { None })"]},
        {"file": LIB, "within": r"^impl UniverseIndex$", "fn": "can_see", "path": "UniverseIndex::can_see",
         "attrs": ["kani::ensures(|r: &bool| *r == (self.counter >= ui.counter))"]},
        {"file": LIB, "within": r"^impl UniverseIndex$", "fn": "next", "path": "UniverseIndex::next",
         "attrs": ["kani::requires(self.counter < usize::MAX)",
                   "kani::ensures(|r: &UniverseIndex| r.counter == self.counter + 1)"]},
        {"file": LIB, "within": r"^impl Variance$", "fn": "xform", "path": "Variance::xform",
         "attrs": ["kani::ensures(|r: &Variance| *r == if self == Variance::Invariant || other == Variance::Invariant "
                   "{ Variance::Invariant } else if self == other { Variance::Covariant } else { Variance::Contravariant })"]},
        {"file": LIB, "within": r"^impl Variance$", "fn": "invert", "path": "Variance::invert",
         "attrs": ["kani::ensures(|r: &Variance| *r == if self == Variance::Invariant { Variance::Invariant } "
                   "else if self == Variance::Covariant { Variance::Contravariant } else { Variance::Covariant })"]},
    ],
    "targets": [
        {"file": LIB, "within": r"^impl std::ops::BitAnd for ClausePriority$", "fn": "bitand", "path": "<ClausePriority as BitAnd>::bitand",
         "clauses": ["commutative, associative, idempotent; High neutral; Low absorbing (harness k3_l_priority_meet)"]},
    ],
})

# --------------------------------------------------------------------------- K2
SHIFT = "chalk-ir/src/fold/shift.rs"
K({
    "id": "K2",
    "title": "ir_shift_leaf: Shifter::adjust, DownShifter::adjust and the fold driver's leaf step (chalk-ir/src/fold/shift.rs)",
    "crate": "chalk-ir",
    "complete": True,
    "bound": None,
    "mods": [{"into": SHIFT, "harness": "chalk_ir/k2_shift.rs", "name": "verif_k2"}],
    "contracts": [
        {"file": SHIFT, "within": r"^impl<I: Interner> Shifter<I>$", "fn": "adjust", "path": "Shifter::adjust",
         "attrs": ["kani::requires(bound_var.debruijn.depth() as u64 + self.source_binder.depth() as u64 + outer_binder.depth() as u64 <= u32::MAX as u64)",
                   "kani::ensures(|r: &BoundVar| r.index == bound_var.index && r.debruijn.depth() as u64 == "
                   "bound_var.debruijn.depth() as u64 + self.source_binder.depth() as u64 + outer_binder.depth() as u64)"]},
        {"file": SHIFT, "within": r"^impl<I> DownShifter<I>$", "fn": "adjust", "path": "DownShifter::adjust",
         "attrs": ["kani::requires(bound_var.debruijn.depth() < self.target_binder.depth() || "
                   "(bound_var.debruijn.depth() - self.target_binder.depth()) as u64 + outer_binder.depth() as u64 <= u32::MAX as u64)",
                   "kani::ensures(|r: &Fallible<BoundVar>| match r { Err(_) => bound_var.debruijn.depth() < self.target_binder.depth(), "
                   "Ok(b) => bound_var.debruijn.depth() >= self.target_binder.depth() && b.index == bound_var.index && "
                   "b.debruijn.depth() as u64 == (bound_var.debruijn.depth() - self.target_binder.depth()) as u64 + outer_binder.depth() as u64 })"]},
    ],
    "assumptions": [
        "K2: the fold driver's leaf step (fold.rs: `if let Some(bv1) = bv.shifted_out_to(outer_binder) {..}`) is replicated in the harness (2 lines); the driver itself (recursion through dyn folders) is not verified",
    ],
    "trusted": [],
})

SUBST = "chalk-ir/src/fold/subst.rs"
K({
    "id": "K2S",
    "title": "ir_subst_leaf: Subst::fold_free_var_{ty,lifetime}, outer-variable branch (chalk-ir/src/fold/subst.rs)",
    "crate": "chalk-ir",
    "complete": True,
    "bound": None,
    "mods": [{"into": SUBST, "harness": "chalk_ir/k2_subst.rs", "name": "verif_k2s"}],
    "targets": [
        {"file": SUBST, "within": r"^impl<I: Interner> TypeFolder<I> for Subst<'_, I>$", "fn": "fold_free_var_ty", "path": "Subst::fold_free_var_ty",
         "clauses": ["variable of an enclosing binder (depth d >= 1) -> same index, depth d - 1 + outer_binder"]},
        {"file": SUBST, "within": r"^impl<I: Interner> TypeFolder<I> for Subst<'_, I>$", "fn": "fold_free_var_lifetime", "path": "Subst::fold_free_var_lifetime",
         "clauses": ["variable of an enclosing binder (depth d >= 1) -> same index, depth d - 1 + outer_binder"]},
    ],
    "assumptions": ["K2S: the `parameters[index]` branch (parameter shifted in through the generic fold driver) is NOT covered (CBMC does not finish)"],
    "trusted": [],
})

# --------------------------------------------------------------------------- K4
K({
    "id": "K4",
    "title": "ir_flags: TyKind::compute_flags and the Lifetime/GenericArg/AliasTy/Substitution compute_flags helpers; intern_ty stores the result",
    "crate": "chalk-ir",
    "complete": False,
    "bound": "substitutions <= 2 arguments, dyn bounds <= 1 where-clause; complete in the 16-bit flag domain of every child and in every enum variant",
    "mods": [{"into": LIB, "harness": "chalk_ir/k4_flags.rs", "name": "verif_k4"}],
    "targets": [
        {"file": LIB, "within": r"^impl<I: Interner> TyKind<I>$", "fn": "compute_flags", "path": "TyKind::compute_flags",
         "clauses": ["compute_flags(kind) & OCC == local(kind) | U flags(child types) & OCC | U lt_flags(lifetimes) | U ct_flags(consts), for every TyKind variant"]},
        {"file": LIB, "within": r"^impl<I: Interner> Lifetime<I>$", "fn": "compute_flags", "path": "Lifetime::compute_flags", "clauses": ["table per LifetimeData variant"]},
        {"file": LIB, "within": r"^impl<I: Interner> GenericArg<I>$", "fn": "compute_flags", "path": "GenericArg::compute_flags", "clauses": ["type: cached flags; lifetime: lt_flags; const: flags(ty) | ct_flags(value)"]},
        {"file": LIB, "within": r"^impl<I: Interner> AliasTy<I>$", "fn": "compute_flags", "path": "AliasTy::compute_flags", "clauses": ["HAS_TY_PROJECTION / HAS_TY_OPAQUE | substitution flags"]},
        {"file": LIB, "within": r"^impl<I: Interner> Substitution<I>$", "fn": "compute_flags", "path": "Substitution::compute_flags", "clauses": ["union over the arguments"]},
    ],
    "assumptions": [
        "K4: every TyData is created through Interner::intern_ty (public fields allow other routes for other interners); intern_ty of VerifIr has the same text as ChalkIr's",
        "K4: the rigid forms TyKind::AssociatedType / TyKind::OpaqueType are applications (their flags are those of their arguments); HAS_TY_PROJECTION / HAS_TY_OPAQUE report AliasTy occurrences",
        "K4: STILL_FURTHER_SPECIALIZABLE is masked out (the property does not speak about it)",
    ],
    "trusted": [],
})

# ----------------------------------------------------------------------- K6, K7
# (K6 could_match was built twice — symbolic heads, then concrete head pairs with symbolic leaves — and dropped:
#  the generic Zip machinery reachable from could_match costs CBMC 5-9 GB and > 7 minutes per harness, even for leaf-vs-leaf.)
K({
    "id": "K7",
    "title": "ir_zip_substs: Zipper::zip_substs default method (chalk-ir/src/zip.rs)",
    "crate": "chalk-ir",
    "complete": False,
    "bound": "<= 3 arguments",
    "mods": [{"into": "chalk-ir/src/zip.rs", "harness": "chalk_ir/k7_zip_substs.rs", "name": "verif_k7"}],
    # generated by the k7_case! macro (concrete argument count x variances declared or not)
    "harnesses": ["k7_zip_substs_positions_n%d_%s" % (n, w) for w in ("declared", "none") for n in range(4)],
    "targets": [
        {"file": "chalk-ir/src/zip.rs", "fn": "zip_substs", "path": "Zipper::zip_substs",
         "clauses": ["position i related at ambient.xform(variances[i]) (Invariant if none), in order, once", "stops at the first error and returns it"]},
    ],
    "assumptions": [],
    "trusted": [],
})

# --------------------------------------------------------------------------- K5
INPLACE = "chalk-ir/src/fold/in_place.rs"
K({
    "id": "K5",
    "title": "ir_in_place: fallible_map_vec / fallible_map_box / VecMappedInPlace (chalk-ir/src/fold/in_place.rs)",
    "crate": "chalk-ir",
    "complete": False,
    "bound": {"quick": "vector length <= 3 (unwind 5); box: loop-free", "thorough": "vector length <= 6 (unwind 8)"},
    "mods": [{"into": INPLACE, "harness": "chalk_ir/k5_in_place.rs", "name": "verif_k5"}],
    "targets": [
        {"file": INPLACE, "fn": "fallible_map_vec", "path": "fold::in_place::fallible_map_vec",
         "clauses": ["Ok <=> no element failed; Ok: nothing dropped, out[i]==f(v[i]), result owns each element once",
                     "Err: [0,k) dropped once as U, k dropped once by the folder, (k,len) dropped once as T",
                     "all CBMC pointer/alloc/dealloc checks (no UAF, double free, OOB)"]},
        {"file": INPLACE, "fn": "fallible_map_box", "path": "fold::in_place::fallible_map_box",
         "clauses": ["Ok: value not dropped; Err: value dropped exactly once, storage freed"]},
        {"file": INPLACE, "within": r"^impl<T, U> Drop for VecMappedInPlace<T, U>$", "fn": "drop", "path": "<VecMappedInPlace as Drop>::drop",
         "clauses": ["pre: [0,m) hold U, slot m moved out, (m,len) hold T, m<len",
                     "post: every slot != m dropped exactly once as its type, slot m untouched, buffer freed once"]},
        {"file": INPLACE, "within": r"^impl<T, U> VecMappedInPlace<T, U>$", "fn": "new", "path": "VecMappedInPlace::new", "clauses": ["takes over ptr/len/cap, map_in_progress = 0"]},
        {"file": INPLACE, "within": r"^impl<T, U> VecMappedInPlace<T, U>$", "fn": "finish", "path": "VecMappedInPlace::finish", "clauses": ["rebuilds the Vec<U> without dropping"]},
    ],
    "assumptions": [
        "K5: unwinding after a panic in the folder runs the same drop glue (Drop for VecMappedInPlace / Box<MaybeUninit<U>>) as an early return; Kani itself aborts on panic, so the panic path is checked through the guard's contract (k5_guard_drop_*) and the Err path",
        "K5: Vec::from_raw_parts / Box::from_raw / ptr::read / ptr::write as modelled by Kani's std",
        "K5: element leaks are checked through the drop counters (every element); leaks of the buffer itself are unit K5L's (CBMC --memory-leak-check)",
    ],
    "trusted": ["alloc::vec / alloc::boxed as compiled by Kani"],
})

# -------------------------------------------------------------------------- K5L
K({
    "id": "K5L",
    "title": "ir_in_place, storage leaks: fallible_map_box / fallible_map_vec free the buffer on every path (chalk-ir/src/fold/in_place.rs)",
    "crate": "chalk-ir",
    "complete": False,
    "bound": {"quick": "box: loop-free; vector length <= 2 (unwind 4)", "thorough": "box: loop-free; vector length <= 2 (unwind 4)"},
    "mods": [{"into": INPLACE, "harness": "chalk_ir/k5l_leaks.rs", "name": "verif_k5l"}],
    "kani_args": ["--cbmc-args", "--memory-leak-check"],
    "group": "leak",
    "targets": [
        {"file": INPLACE, "fn": "fallible_map_box", "path": "fold::in_place::fallible_map_box",
         "clauses": ["whether the folder succeeds or fails, every allocation made is freed by the time the result has been dropped (CBMC --memory-leak-check)"]},
        {"file": INPLACE, "fn": "fallible_map_vec", "path": "fold::in_place::fallible_map_vec",
         "clauses": ["whether the folder succeeds or fails (at any position), the vector's buffer is freed by the time the result has been dropped"]},
    ],
    "assumptions": ["K5L: CBMC's dynamic-memory leak check (`__CPROVER_memory_leak == NULL` at exit), enabled through Kani's unstable --cbmc-args"],
    "trusted": ["alloc::vec / alloc::boxed as compiled by Kani"],
})

# -------------------------------------------------------------------------- K13
COH = "chalk-solve/src/coherence.rs"
K({
    "id": "K13",
    "title": "coherence_priorities: CoherenceSolver::set_priorities, SpecializationPriorities::{insert, priority} on real petgraph forests",
    "crate": "chalk-solve",
    "complete": False,
    "bound": {"quick": "every labelled DAG on <= 3 impls (29 graphs, exhaustive below the bound)", "thorough": "+ two sampled 4-impl DAGs with a node of in-degree >= 2"},
    "mods": [{"into": COH, "harness": "chalk_solve/k13_coherence.rs", "name": "verif_k13"}],
    "targets": [
        {"file": COH, "fn": "set_priorities", "path": "CoherenceSolver::set_priorities",
         "clauses": ["pre: forest is a DAG, edges less special -> more special",
                     "post: no panic; every impl gets a priority; for every edge u->v priority(v) > priority(u)",
                     "callee SpecializationPriorities::insert replaced by its contract (kani::stub)"]},
        {"file": COH, "within": r"^impl<I: Interner> SpecializationPriorities<I>$", "fn": "insert", "path": "SpecializationPriorities::insert",
         "clauses": ["post: stored(impl) == max(old stored(impl), p); result == (stored changed); other keys untouched  (proved by Verus unit V15)"]},
        {"file": COH, "within": r"^impl<I: Interner> SpecializationPriorities<I>$", "fn": "priority", "path": "SpecializationPriorities::priority",
         "clauses": ["defined for every impl of the forest"]},
    ],
    "assumptions": [
        "K13: the pairwise disjoint/specializes queries that build the forest are solver calls and are not verified; the forest is assumed to be a DAG with edges from less to more special impls",
        "K13: the root loop of specialization_priorities (3 lines) is replicated in the harness because build_specialization_forest needs a solver",
        "K13: petgraph / indexmap as compiled by Kani",
    ],
    "trusted": ["petgraph::Graph", "indexmap::IndexMap"],
    "harness_timeout": {"quick": 900, "thorough": 3000},
})

K({
    "id": "K13O",
    "title": "coherence_priorities, variant for the pre-repair signature of SpecializationPriorities::insert (-> (), asserts the key is absent)",
    "crate": "chalk-solve",
    "group": "old",
    "complete": False,
    "bound": KANI_UNITS["K13"]["bound"],
    "mods": [{"into": COH, "harness": "chalk_solve/k13o_coherence_old.rs", "name": "verif_k13o"}],
    "applicable_if": {"file": COH, "within": r"^impl<I: Interner> SpecializationPriorities<I>$", "fn": "insert", "sig_not_regex": r"->\s*bool"},
    "targets": KANI_UNITS["K13"]["targets"][:1],
    "assumptions": KANI_UNITS["K13"]["assumptions"],
    "trusted": ["petgraph::Graph"],
})
KANI_UNITS["K13"]["applicable_if"] = {"file": COH, "within": r"^impl<I: Interner> SpecializationPriorities<I>$", "fn": "insert", "sig_regex": r"->\s*bool"}

# --------------------------------------------------------------------------- K8
# (K9 InferenceValue::unify_values and K10 Canonicalizer::add were built and dropped: the derived Clone glue of
#  GenericArg, reached through ena's probe_value / unify_values, makes CBMC time out even on concrete inputs; see DESIGN.md)
UCANON = "chalk-solve/src/infer/ucanonicalize.rs"
K({
    "id": "K8",
    "title": "solve_universe_map: UniverseMap::new, UniverseMapExt::{add, map_universe_to_canonical, map_universe_from_canonical}",
    "crate": "chalk-solve", "tracing_stub": True,
    "complete": False,
    "bound": {"quick": "every well-formed map of <= 3 universes for the mapping laws, <= 2 for add; universe values fully symbolic", "thorough": "add on 3 universes as well"},
    "mods": [{"into": UCANON, "harness": "chalk_solve/k8_universe_map.rs", "name": "verif_k8"}],
    "targets": [
        {"file": UCANON, "within": r"^impl UniverseMapExt for UniverseMap$", "fn": "add", "path": "UniverseMapExt::add",
         "clauses": ["keeps `universes` strictly increasing and rooted; adds exactly the given universe"]},
        {"file": UCANON, "within": r"^impl UniverseMapExt for UniverseMap$", "fn": "map_universe_to_canonical", "path": "UniverseMapExt::map_universe_to_canonical",
         "clauses": ["Some <=> member; result < len; strictly monotone and injective on members"]},
        {"file": UCANON, "within": r"^impl UniverseMapExt for UniverseMap$", "fn": "map_universe_from_canonical", "path": "UniverseMapExt::map_universe_from_canonical",
         "clauses": ["inverse of to_canonical below len; above every member and strictly monotone from len on (pre: no overflow)"]},
    ],
    "assumptions": ["K8: slice::binary_search / Vec::insert as compiled by Kani"],
    "trusted": [],
})
# -------------------------------------------------------------------------- K11
RSTACK = "chalk-recursive/src/fixed_point/stack.rs"
K({
    "id": "K11",
    "title": "rec_stack: Stack::{new, push, pop, mixed_inductive_coinductive_cycle_from}, StackEntry::{flag_cycle, read_and_reset_cycle_flag}",
    "crate": "chalk-recursive", "tracing_stub": True,
    "complete": False,
    "bound": {"quick": "<= 4 stack entries; overflow_depth symbolic", "thorough": "<= 6 stack entries"},
    "mods": [{"into": RSTACK, "harness": "chalk_recursive/k11_stack.rs", "name": "verif_k11"}],
    "targets": [
        {"file": RSTACK, "within": r"^impl Stack$", "fn": "push", "path": "Stack::push",
         "clauses": ["pre: len < overflow_depth (at the limit the call aborts)", "post: len' == len+1 <= overflow_depth; new entry {c, cycle:false}; older entries untouched"]},
        {"file": RSTACK, "within": r"^impl Stack$", "fn": "pop", "path": "Stack::pop", "clauses": ["pre: argument is the top; post: len' == len-1"]},
        {"file": RSTACK, "within": r"^impl Stack$", "fn": "mixed_inductive_coinductive_cycle_from", "path": "Stack::mixed_inductive_coinductive_cycle_from",
         "clauses": ["== exists coinductive in [d..] && exists inductive in [d..]"]},
        {"file": RSTACK, "within": r"^impl StackEntry$", "fn": "read_and_reset_cycle_flag", "path": "StackEntry::read_and_reset_cycle_flag", "clauses": ["returns old flag, leaves false"]},
    ],
    "assumptions": ["K11: Kani aborts on panic, so 'push at the limit panics' is checked with kani::should_panic"],
    "trusted": [],
})

# -------------------------------------------------------------------------- K12
AGG = "chalk-engine/src/slg/aggregate.rs"
K({
    "id": "K12",
    "title": "engine_make_solution: <SlgContextOps as AggregateOps>::make_solution against a mock answer stream",
    "crate": "chalk-engine", "tracing_stub": True,
    "complete": False,
    "bound": {"quick": "every answer stream of length <= 2 over {answer, ambiguous answer, floundered, no-more, quantum-exceeded} (31 streams, exhaustive below the bound); answers carry the empty substitution; + the stream [answer, no-more] with the one-element substitution [?0 := str]",
              "thorough": "+ every stream of length 3 whose first two items do not end it (45 streams)"},
    "mods": [{"into": AGG, "harness": "chalk_engine/k12_make_solution.rs", "name": "verif_k12"}],
    "targets": [
        {"file": AGG, "within": r"^impl<I: Interner> AggregateOps<I> for SlgContextOps<'_, I>$", "fn": "make_solution", "path": "AggregateOps::make_solution",
         "clauses": ["None <=> first item is NoMoreSolutions",
                     "Some(Unique(s)) <=> first item is an unambiguous answer and the next is NoMoreSolutions; s is that answer unchanged",
                     "QuantumExceeded seen => Some(Ambig(_))", "Floundered first => Some(Ambig(_))", "ambiguous first answer => never Unique"]},
    ],
    "assumptions": [
        "K12: the answer stream is a mock (the real ForestSolver is unit V5); answers carry the empty substitution, so merge_into_guidance / the anti-unifier are never entered (merge_into_guidance and SlgContextOps::identity_constrained_subst are stubbed by kani::stub)",
        "K12: " + "tracing replaced by a no-op stand-in (see evidence of the run)",
    ],
    "trusted": ["mock AnswerStream"],
    "harness_timeout": {"quick": 900, "thorough": 1800},
})

# --------------------------------------------------------------------------- V1
V({
    "id": "V1",
    "title": "solution_combine: Solution::{combine, is_trivial_and_always_true, into_guidance, constrained_subst, definite_subst, is_unique, is_ambig}",
    "template": "v1_solution.rs",
    "assumptions": [
        "V1: derived Clone/PartialEq on Solution, Guidance, Canonical, ConstrainedSubst and the interned Substitution/Constraints/CanonicalVarKinds mean 'equal abstract value' (external_body clone/eq specs)",
        "V1: Substitution::is_identity_subst, Constraints::is_empty, Constraints::empty are abstract (uninterpreted views); their bodies are not verified",
        "V1 (commutativity lemma): two trivially-true solutions of one query are equal — assumption on callers of combine",
        "V1: tracing macros have no effect on program state (dropped by the extractor)",
    ],
    "trusted": ["chalk-ir Substitution/Constraints (abstract in V1)"],
})

# --------------------------------------------------------------------------- V7
V({
    "id": "V7",
    "title": "infer_snapshot: InferenceTable::{snapshot, rollback_to, commit, relate}, Unifier::new",
    "template": "v7_infer_snapshot.rs",
    "assumptions": [
        "V7: assumed contract of the ena dependency: snapshot() pushes the current contents on a stack of open snapshots, rollback_to(s) restores the contents recorded by the innermost snapshot and pops it, commit(s) pops it and keeps the contents",
        "V7: Unifier::relate (the whole unification algorithm) is havoc: it may change the table arbitrarily but leaves ena's stack of open snapshots balanced",
        "V7: Vec<EnaVariable>::clone returns an equal vector (vstd Vec::clone spec + EnaVariable: Copy)",
    ],
    "trusted": ["ena::unify::InPlaceUnificationTable snapshot/rollback_to/commit (dependency, assumed contract)"],
})

# --------------------------------------------------------------------------- V3
V({
    "id": "V3",
    "title": "recursive_lattice: <&dyn RustIrDatabase as SolverStuff>::{is_coinductive_goal, initial_value, reached_fixed_point, error_value}",
    "template": "v3_recursive_lattice.rs",
    "assumptions": [
        "V3: core::result::Result is replaced by an identical local enum so that its derived PartialEq can be specified as structural (vstd has no spec for Result == Result; orphan rule)",
        "V3: UCanonical::trivial_substitution returns an identity substitution (iterator code in chalk-ir, not verified); Constraints::empty is empty",
        "V3: callee contracts Solution::is_ambig (proved by V1) and is_coinductive (proved by V10)",
    ],
    "trusted": ["chalk-ir UCanonical::trivial_substitution"],
})

# -------------------------------------------------------------------------- V10
V({
    "id": "V10",
    "title": "coinductive_goal: IsCoinductive for Goal and for UCanonical<InEnvironment<Goal>>; Binders::skip_binders",
    "template": "v10_coinductive.rs",
    "assumptions": [
        "V10: goals are finite trees (goal_height decreases under a quantifier); Goal::data returns the interned GoalData",
        "V10: TraitDatum::is_auto_trait / is_coinductive_trait read the trait's flags (abstract)",
    ],
    "trusted": ["interner (Goal::data)"],
})

# --------------------------------------------------------------------------- V5
V({
    "id": "V5",
    "title": "forest_answer_stream + root_answer_shape: Forest::root_answer, <ForestSolver as AnswerStream>::{peek_answer, next_answer}",
    "template": "v5_forest.rs",
    "assumptions": [
        "V5: SolveState::ensure_root_answer (the SLG state machine, logic.rs) is havoc: anything may happen to the forest; assumed only: stack empty on Ok, never Err(NegativeCycle) ('avoided by construction', the stream panics on one), keeps borrowing the same forest",
        "V5: partial correctness only (exec_allows_no_decreases_clause on peek_answer); loop invariant inserted in place (extractor edit I3)",
        "V5: index_struct!-generated AnswerIndex/TableIndex written out by hand; AnswerIndex::increment treated as mathematical +1 (no overflow)",
        "V5: Forest::answer returns the stored answer (abstract view spec_answer)",
    ],
    "trusted": ["chalk-engine logic.rs state machine (havoc)", "index_struct! macro expansion"],
})

# --------------------------------------------------------------------------- V2
V({
    "id": "V2",
    "title": "with_priorities (chalk-recursive/src/combine.rs)",
    "template": "v2_with_priorities.rs",
    "assumptions": [
        "V2: calculate_inputs is abstract (it substitutes through the generic folder); its Vec<GenericArg> result and Vec == Vec are modelled by a list type whose == is equality of the abstract sequence (vstd has no spec for Vec == Vec)",
        "V2: callee contract Solution::combine == spec_combine (proved by V1)",
        "V2 (symmetry lemma): two trivially-true solutions of one query are equal",
    ],
    "trusted": [],
})

# --------------------------------------------------------------------------- V0
V({
    "id": "V0",
    "title": "flags_induction: structural-induction lemma lifting the one-level flag contract (K4) to whole types",
    "template": "v0_flags_induction.rs",
    "assumptions": ["V0: pure lemma over an abstract finitely-branching tree; it is connected to the code only through K4's one-level contract"],
    "trusted": [],
})

# -------------------------------------------------------------------------- V11
V({
    "id": "V11",
    "title": "builtin_dispatch: add_sized_program_clauses, add_copy_program_clauses, add_clone_program_clauses, add_tuple_program_clauses",
    "template": "v11_builtin.rs",
    "assumptions": [
        "V11: callee contracts (not verified): push_adt_sized_conditions pushes the last-field condition, push_tuple_sized_conditions / push_tuple_copy_conditions the tuple conditions, needs_impl_for_tys one clause requiring the trait for exactly the given types, ClauseBuilder::push_fact the unconditional clause (ghost log)",
        "V11: std::iter::once / Option::into_iter yield exactly their argument (assume_specification)",
        "V11: the bound variable indexes an existing binder (binders.at), caller's obligation",
        "V11: the oracle tables (sized_rule / copy_rule) are transcribed from the Rust reference; explicit library impls and how they combine with built-in clauses are the solver's business",
    ],
    "trusted": ["chalk-solve builtin_traits::needs_impl_for_tys (iterator map); last_field_of_struct is a callee contract here and verified in V33"],
})

# --------------------------------------------------------------------------- V9
V({
    "id": "V9",
    "title": "lifetime_variance: Unifier::{relate_lifetime_lifetime, push_lifetime_outlives_goals, unify_lifetime_var, relate_alias_ty, generalize_lifetime, generalize_const}, Lifetime::inference_var, Variance::{xform, invert}, UniverseIndex::{can_see, root}",
    "template": "v9_lifetime_variance.rs",
    "assumptions": [
        "V9: ena: unify_var_var on two unbound variables and unify_var_value on an unbound variable cannot fail and have the stated effect on the table view; universe_of_unbound_var reads the table",
        "V9: InEnvironment::new / WhereClause::cast / EnaVariable::to_lifetime / InferenceValue::from_lifetime are constructors (abstract views)",
        "V9: relate_ty_ty is havoc: its outcome is an uninterpreted function of the unifier's state and its arguments (so relate_alias_ty's contract pins down the call it makes); InferenceTable::new_variable returns ena's next free variable, unknown to the table so far; AliasEq::cast / EnaVariable::to_ty are constructors",
        "V9: relate_lifetime_lifetime is verified on its extracted text after the mechanical edit D4 (its reference patterns `(&P, &Q)` become `(P, Q)` over the dereferenced scrutinee, LifetimeData being Copy; logged per run under `dropped`); precondition (callers' obligation, the code panics otherwise): neither normalized lifetime is a bound variable or Phantom",
        "V9: InferenceTable::normalize_lifetime_shallow returns an uninterpreted function of the table (`spec_normalize`), leaves the table view alone and does not change what any lifetime normalizes to (ena path compression); two lifetimes that are both 'static (or both erased) need no requirement whether or not their interned handles are equal",
        "V9: Lifetime::inference_var (chalk-ir, neighbourhood API) is extracted and proved: Some(v) iff the lifetime's data is InferenceVar(v)",
        "V9: the Ref/Dyn arms of relate_ty_ty are NOT verified (havoc); the composite reference rule is a lemma over relate_lifetime_lifetime's contract + xform",
    ],
    "trusted": ["ena", "chalk-ir casts"],
})

# --------------------------------------------------------------------------- V4
V({
    "id": "V4",
    "title": "solve_iteration_guard: SolveIteration::solve_iteration (chalk-recursive/src/solve.rs)",
    "template": "v4_solve_iteration.rs",
    "assumptions": [
        "V4: solve_from_clauses / solve_via_simplification are abstract: their result is an uninterpreted function of the solver state and the goal",
        "V4: Goal::data returns the interned GoalData; derived Clone returns an equal value",
    ],
    "trusted": [],
})

# -------------------------------------------------------------------------- V13
V({
    "id": "V13",
    "title": "may_invalidate: MayInvalidate::{aggregate_generic_args, aggregate_tys, aggregate_consts, aggregate_lifetimes, aggregate_placeholders, aggregate_projection_tys, aggregate_opaque_ty_tys} (chalk-engine/src/slg.rs)",
    "template": "v13_may_invalidate.rs",
    "assumptions": [
        "V13: callee contracts not verified: aggregate_name_and_substs (iterator+closure: false only if names equal and arguments pairwise instances), aggregate_lifetimes is extracted too (edit D5 names its two `_` parameters) and held against 'cannot invalidate only for the same lifetime'; aggregate_consts IS verified (mutually recursive with aggregate_tys, decreases on term height)",
        "V13: aggregate_generic_args: precondition = both arguments are of the same kind (the code panics otherwise); for lifetimes the contract admits 'cannot invalidate' only for the SAME lifetime (the pinned code never claims it); GenericArg::data returns the interned data, a canonical argument holds a canonical type / constant",
        "V13: constants are finite trees (a constant's type is smaller than the constant, an array's length constant smaller than the array type); a canonical constant has a canonical type and is not an inference variable: Const::data's contract; ConcreteConst::const_eq is the interner's (uninterpreted) equality",
        "V13: types are finite trees; canonical forms contain no free inference variables (the code panics on one): Ty::kind's contract",
        "V13: `ty_instance` / `const_instance` are the term-algebra definition of 'instance of' (types and constants, mutually recursive) with argument lists abstract",
        "V13: the current guidance is LINEAR (every bound variable occurs once), which is what makes '(_, BoundVar) => cannot invalidate' right; linearity is established by the anti-unifier (merge_into_guidance: a fresh variable per position), which is NOT verified (seeded change s-C17 breaks exactly this and is missed)",
    ],
    "trusted": ["chalk-engine MayInvalidate::aggregate_name_and_substs"],
})

# -------------------------------------------------------------------------- V15
V({
    "id": "V15",
    "title": "priorities_insert: SpecializationPriorities::{new, insert} — the contract K13 assumes for insert",
    "template": "v15_priorities_insert.rs",
    "assumptions": [
        "V15: indexmap::IndexMap is abstract (finite-map view) with the assumed contracts of new/get/insert and of the entry API (entry, OccupiedEntry::{get, insert}, VacantEntry::insert)",
        "V15: derive(PartialOrd/PartialEq) on SpecializationPriority(usize) is the order of the wrapped number",
        "V15: SpecializationPriorities::priority (custom Index sugar `self.map[&id]`) is not extractable; it is `map.get(id).expect(..)`",
    ],
    "trusted": ["indexmap::IndexMap (assumed contract)"],
})

# -------------------------------------------------------------------------- V16
V({
    "id": "V16",
    "title": "default_free_var_folds: default FallibleTypeFolder::try_fold_free_var_{ty,lifetime,const}, TypeFolder::fold_free_var_{ty,lifetime,const}; BoundVar::{new, shifted_in_from, to_ty, to_lifetime, to_const}, DebruijnIndex::{new, depth, shifted_in_from}",
    "template": "v16_default_free_var_folds.rs",
    "assumptions": [
        "V16: `intern` of TyKind / LifetimeData / ConstData are constructors (abstract views); the fold of a constant's type through the generic driver is abstract (folded_ty)",
        "V16: `&mut dyn FallibleTypeFolder<I, Error = E>` / `&mut dyn TypeFolder<I>` returned by as_dyn are opaque types in the prelude (only passed on)",
        "V16: precondition: the folder does not forbid free variables and depth + outer_binder fits in u32 (else the real code panics)",
    ],
    "trusted": [],
})

# -------------------------------------------------------------------------- V17
V({
    "id": "V17",
    "title": "truncation_guards: Forest::abstract_positive_literal (chalk-engine/src/logic.rs), Fulfill::push_obligation (chalk-recursive/src/fulfill.rs)",
    "template": "v17_truncation_guards.rs",
    "assumptions": [
        "V17: truncate::needs_truncation (a TypeVisitor measuring the goal) is abstract: `too_big(goal, max_size)`",
        "V17: canonicalize / u_canonicalize are abstract (only their results are passed on)",
    ],
    "trusted": ["chalk-solve truncate::needs_truncation"],
})

# -------------------------------------------------------------------------- V18
V({
    "id": "V18",
    "title": "rec_solve_goal: RecursiveContext::solve_goal (chalk-recursive/src/fixed_point.rs), generic in goal and answer type",
    "template": "v18_solve_goal.rs",
    "assumptions": [
        "V18: SearchGraph / Stack / Cache are abstract (views: node sequence, lookup, mixed-cycle predicate, cache map); their custom Index/IndexMut impls have no precondition (in-range is the callers' invariant); flagging a stack entry does not change which cycles are mixed",
        "V18: solve_new_subgoal (the fixed-point loop, which calls back into solve_goal through the solver) is havoc; the new-goal branch is only constrained by 'minimums never go up'",
        "V18: Minimums::update_from is min on the derived order of DepthFirstNumber (std::cmp::min); V::clone returns an equal value; cloning the caller's callback gives a callback that behaves the same (assumed axioms clone_keeps_behaviour / clone_keeps_callable); the callback may be called",
        "V18: a Kani unit (K14) that would have run the whole engine on tiny propositional programs against the fixed-point semantics was written and dropped: CBMC does not finish even on one concrete 3-goal scenario (recursion through solve_goal/solve_new_subgoal/solve_iteration is unrolled 15^depth times)",
    ],
    "trusted": ["chalk-recursive SearchGraph / Stack / Cache (abstract)"],
})

# -------------------------------------------------------------------------- V19
V({
    "id": "V19",
    "title": "rec_solve_goal, interruption clause: RecursiveContext::solve_goal never makes an answer permanent while the caller's callback says stop",
    "template": "v18_solve_goal.rs",
    "assumptions": VERUS_UNITS["V18"]["assumptions"] + [
        "V19: induction hypothesis: solve_new_subgoal reaches the cache only through nested solve_goal calls, so it satisfies the same clause",
        "V19: SearchGraph::move_to_cache is the only operation that makes answers permanent (counter `moves`)",
    ],
    "trusted": VERUS_UNITS["V18"]["trusted"],
})

# --------------------------------------------------------------------------- V8
V({
    "id": "V8",
    "title": "occurs_check_leaf: OccursCheck::{new, try_fold_free_placeholder_ty, try_fold_free_placeholder_const, try_fold_free_placeholder_lifetime, try_fold_inference_ty, try_fold_inference_const, try_fold_inference_lifetime, interner}, Unifier::{relate_var_ty, unify_var_const, unify_var_var, unify_general_var_specific_ty}, InferenceTable::universe_of_unbound_var, InferenceValue::{from_ty, from_const}, UniverseIndex::can_see",
    "template": "v8_occurs_check.rs",
    "assumptions": [
        "V8: ena's table is abstract: a union-find view (class representative, value of each class) with the assumed contracts of probe_value, unioned, find, unify_var_value; InferenceTable::new_variable creates a fresh singleton class",
        "V8: the generic fold of a type / constant with the occurs check as folder, generalize_ty and relate_ty_ty are havoc whose outcomes are uninterpreted functions of their arguments and of the state they run on: the contracts of relate_var_ty / unify_var_const pin down which check is run (this unknown, its universe, the state at entry), that the CHECKED term (its generalization, for types) is what gets bound, and with which arguments the follow-up relation is made; ena's unify_var_var on two unbound variables cannot fail and merges their classes; casts to GenericArg are constructors",
        "V8: the bound-variable branch recurses through the generic fold driver (havoc; assumed to keep the check's parameters and to return closed terms, which the code asserts)",
        "V8: derive(PartialOrd) on UniverseIndex is the order of `counter`; push_lifetime_outlives_goals as proved by V9; casts/constructors (to_ty, to_lifetime, to_const) are abstract",
    ],
    "trusted": ["ena", "chalk-ir fold driver"],
})

# -------------------------------------------------------------------------- V20
V({
    "id": "V20",
    "title": "slg_merge_answer: SolveState::{merge_answer_into_strand, on_positive_cycle} (chalk-engine/src/logic.rs), Table::enqueue_strand",
    "template": "v20_merge_answer.rs",
    "assumptions": [
        "V20: Tables / Table / Stack are abstract (views: table at an index, a table's strand queue and stored answers, the table on top of the stack); Table::enqueue_strand appends to the queue and leaves goal, answer mode and answers alone; the custom Index/IndexMut impls have no precondition (in-range is the callers' invariant)",
        "V20: unwind_stack only appends caller strands to queues; flounder_subgoal, apply_answer_subst, map_from_canonical and canonicalize_strand_from are havoc on their outputs (canonicalization is an uninterpreted function of the inference table and the strand)",
        "V20: preconditions taken from the call sites and from the function's own panics: a subgoal is selected and in range; a negative subgoal's answer has no delayed subgoals; AnswerIndex does not overflow",
        "V20: a change that moves the re-enqueue decision into a new helper function makes the unit UNDECIDED (unknown callee), not a violation",
        "V20: on_positive_cycle: Minimums (two clock values) is modelled with its fields and havoc methods - nothing is stated about the cycle minimums, only that the strand is handed back to the queue of the table being evaluated and nothing else changes; StackEntry without its active_strand field",
    ],
    "trusted": ["chalk-engine Tables / Table / Stack (abstract)", "chalk-solve InferenceTable::canonicalize, apply_answer_subst"],
})

# -------------------------------------------------------------------------- V21
V({
    "id": "V21",
    "title": "canonicalizer_leaves: Canonicalizer::{fold_inference_ty, fold_inference_lifetime, fold_inference_const, fold_free_placeholder_ty, fold_free_placeholder_lifetime, fold_free_placeholder_const, forbid_free_vars, interner}, InferenceTable::probe_var, BoundVar::{new, shifted_in_from, to_const}, DebruijnIndex::{new, depth, shifted_in_from}, WithKind::{new, skip_kind}",
    "template": "v21_canonicalizer_leaves.rs",
    "assumptions": [
        "V21: Canonicalizer::add (iterator position + closure capturing &mut self, outside Verus) is ASSUMED to return the index of the first free_vars entry for the variable, appending the entry when there is none",
        "V21: ena's table is abstract: a union-find view (class representative, value of each class) with the assumed contracts of probe_value and find; interning is abstract (kind/data of an interned term is what was interned)",
        "V21: the bound-unknown branch recurses through the generic fold driver (havoc; assumed to only append to free_vars and to leave the union-find classes alone)",
        "V21: derive(Ord) on UniverseIndex is the order of `counter`; std::cmp::max returns its second argument unless the first is greater (std documentation)",
        "V21: DebruijnIndex is re-declared with a public `depth` field (Verus rejects the pub const INNERMOST of a struct with a private field); its three methods are extracted verbatim",
    ],
    "trusted": ["ena", "chalk-ir fold driver", "Canonicalizer::add"],
})

# -------------------------------------------------------------------------- V22
V({
    "id": "V22",
    "title": "slg_unwind: <SolveState as Drop>::drop, SolveState::unwind_stack (chalk-engine/src/logic.rs), Stack::{is_empty, top, pop_and_adjust_depth, pop_and_take_caller_strand} (chalk-engine/src/stack.rs)",
    "template": "v22_unwind.rs",
    "assumptions": [
        "V22: Rust runs Drop::drop of the SolveState when a database callback panics and unwinds through the solver (language semantics; neither tool models unwinding)",
        "V22: precondition (stack invariant of the state machine, not verified here): every stack entry below the top holds its suspended strand; a strand that the state machine holds in a local variable at the moment of the panic is not covered (the code's own FIXME in StackEntry)",
        "V22: Tables / Table are abstract (views: table at an index, its strand queue, 'everything else'); Table::enqueue_strand appends to the queue and changes nothing else; custom Index/IndexMut impls have no precondition",
        "V22: if `impl Drop for SolveState` is absent from logic.rs while the struct is still there, the drop contract is checked against the implicit EMPTY drop (dropping then runs no user code); a refactoring that moves the clean-up into a guard object or another file would be reported although correct",
        "V22: Verus allows no precondition on Drop::drop, so the verbatim text of <SolveState as Drop>::drop is checked as an inherent method of the same name (only the enclosing impl header differs)",
    ],
    "trusted": ["chalk-engine Tables / Table (abstract)", "Rust unwinding semantics"],
})

# -------------------------------------------------------------------------- V23
V({
    "id": "V23",
    "title": "rec_fixed_point_loop: RecursiveContext::solve_new_subgoal (chalk-recursive/src/fixed_point.rs), Minimums::new, StackEntry::{flag_cycle, read_and_reset_cycle_flag}",
    "template": "v23_fixed_point_loop.rs",
    "assumptions": [
        "V23: ghost state: the abstract SearchGraph carries a history of iterations; SolverStuff::solve_iteration (havoc: it calls back into solve_goal) is ASSUMED to append what it ran against, what it produced, its minimums and the stack's cycle flags, to leave the goal's own node in place and the stack as high as it was",
        "V23: SearchGraph / Stack are abstract (views: node sequence, goal lookup, cycle flags); rollback_to truncates the node sequence; custom Index/IndexMut impls have no precondition; std::mem::replace per its documentation",
        "V23: partial correctness only (exec_allows_no_decreases_clause): termination of the fixed-point loop is not claimed",
        "V23: clause G (nothing above the head's node is left when the loop stops on a changed answer) is stated over the mechanism the code has - the node sequence of the search graph; a repair of a different shape that keeps those nodes but marks them as not cacheable would be reported although correct (none exists in the tree); iterating until the answer is stable satisfies the clause vacuously",
        "V23: `==` / `!=` on answers (V: PartialEq) decide structural equality (assumed; derived PartialEq on Fallible<Solution<I>>); the template's impl header carries the bound `V: PartialEq` on every tree",
        "V23: in the prelude's SolverStuff trait the callback type of solve_iteration is a named type parameter (with `impl Fn() -> bool + Clone` in a method of this generic trait the Verus front end does not terminate); the extracted function is unchanged",
    ],
    "trusted": ["chalk-recursive SearchGraph / Stack (abstract)", "SolverStuff::solve_iteration (havoc + ghost history)"],
})

# -------------------------------------------------------------------------- V24
V({
    "id": "V24",
    "title": "rec_solve_goal_new: RecursiveContext::solve_goal, new-goal branch (chalk-recursive/src/fixed_point.rs)",
    "template": "v24_solve_goal_new.rs",
    "assumptions": [
        "V24: solve_new_subgoal is a callee under the contract proved by V23 (stored answer = last iteration's product, returned minimums = that iteration's, nothing made permanent after it, the goal's node still in place with its goal field)",
        "V24: SearchGraph / Stack / Cache are abstract with ghost views (node sequence, goal lookup, iteration history, count and content of move_to_cache batches); insert appends a node whose links point at itself, rollback_to / move_to_cache truncate to dfn, move_to_cache hands exactly the removed nodes to the cache; custom Index/IndexMut have update semantics and no precondition",
        "V24: V::clone returns an equal value; cloning the caller's callback gives a callback that behaves the same (assumed axioms); the graph holds fewer than usize::MAX nodes; Stack::push as proved by K11",
    ],
    "trusted": ["chalk-recursive SearchGraph / Stack / Cache (abstract)"],
})

# -------------------------------------------------------------------------- V25
V({
    "id": "V25",
    "title": "slg_table: Table::{push_answer, answer, next_answer_index, enqueue_strand, is_floundered} (chalk-engine/src/table.rs) on the real Table struct",
    "template": "v25_table.rs",
    "assumptions": [
        "V25: rustc_hash::FxHashMap is abstract: a finite-map view with the assumed contracts of get / contains_key / insert / entry and of Entry::{Occupied::get, Vacant::insert} (std HashMap's documented behaviour); Vec and VecDeque are vstd's models",
        "V25: preconditions of push_answer taken from its own assert / panic and documentation: the table is not floundered; a substitution registered as ambiguous is not re-offered as unambiguous; and the table invariant no_repeats (established by Table::new: no answers) holds on entry",
        "V25: derive(Clone, PartialEq) on Canonical<AnswerSubst> is structural equality (hashing agrees with it)",
    ],
    "trusted": ["rustc_hash / std HashMap (abstract)"],
})

# -------------------------------------------------------------------------- V26
V({
    "id": "V26",
    "title": "rec_solve_root: RecursiveContext::solve_root_goal (chalk-recursive/src/fixed_point.rs)",
    "template": "v26_solve_root.rs",
    "assumptions": [
        "V26: a panic in a database callback abandons the running solve at an arbitrary point and runs no clean-up code of the recursive engine (it has no Drop guard; Rust unwinding semantics) - so solve_root_goal is verified from ANY state satisfying only the engine's invariant 'empty stack => empty search graph'",
        "V26: solve_goal is havoc with the precondition 'stack and search graph empty' (its text is verified by V18 / V24); Stack::is_empty / Stack::clear / SearchGraph::rollback_to are the obvious Vec operations (assumed contracts)",
        "V26: a repair of a different shape (a Drop guard that cleans up during unwinding, keeping the assertion) would be reported by this unit although correct; none exists in the tree",
    ],
    "trusted": ["chalk-recursive SearchGraph / Stack / Cache (abstract)", "Rust unwinding semantics"],
})

# -------------------------------------------------------------------------- V28
V({
    "id": "V28",
    "title": "ty_size_visitor: TySizeVisitor::{new, visit_ty, interner} (chalk-solve/src/solve/truncate.rs)",
    "template": "v28_ty_size.rs",
    "assumptions": [
        "V28: nodes(t) (type constructors of t, bound unknowns resolved) is uninterpreted; its two defining equations are the assumed contract of InferenceTable::normalize_ty_shallow (bound unknown: nodes of its value; otherwise 1 + nodes of the components)",
        "V28: the generic visit driver (Ty::visit_with / super_visit_with, which call back into visit_ty for every component) is havoc under the induction hypothesis: visit_with(t) behaves like visit_ty(t), super_visit_with(t) like visit_ty on each component in turn at the visitor's current (non-zero) depth",
        "V28: counters do not overflow (precondition); std::cmp::max per its documentation; needs_truncation itself (generic over TypeVisitable) is not extracted",
        "V28: TyKind is extracted from chalk-ir with opaque payload types; Ty::kind is assumed to return the type's kind, and a type whose kind carries no argument (Scalar, Str, Never, Foreign, Error, Placeholder, BoundVar, InferenceVar) is assumed to have no components - used only by a visit_ty that inspects the kind before descending (the tree's does not)",
    ],
    "trusted": ["chalk-ir visit driver", "InferenceTable::normalize_ty_shallow"],
})

# -------------------------------------------------------------------------- V27
V({
    "id": "V27",
    "title": "rec_stack_unbounded: Stack::{new, is_empty, clear, push} (chalk-recursive/src/fixed_point/stack.rs) on the real struct",
    "template": "v27_rec_stack.rs",
    "assumptions": [
        "V27: no external_body, no assumed contract: Vec is vstd's model.  Precondition of push: below the limit (at the limit the function aborts - the abort path is K11's should_panic harness); pop is left to K11 (assert_eq! expands to an unstable library item under this Verus)",
    ],
    "trusted": [],
})

# -------------------------------------------------------------------------- V29
V({
    "id": "V29",
    "title": "sized_helpers: push_adt_sized_conditions, push_tuple_sized_conditions (chalk-solve/src/clauses/builtin_traits/sized.rs)",
    "template": "v29_sized_helpers.rs",
    "assumptions": [
        "V29: last_field_of_struct (its own text is verified in V33 against 'last field of the struct, arguments substituted') and needs_impl_for_tys (iterator map) are abstract callees; a substitution's argument list is an abstract sequence and `Substitution::iter(..).last()` returns its last element (std's Iterator::last on a slice iterator); std::iter::once / Option::into_iter per their documentation",
        "V29: invariant of TyKind::Tuple(arity, substitution): exactly `arity` arguments, all of them types (precondition; the code unwraps)",
        "V29: RustIrDatabase::adt_datum (neighbourhood API, not called by the pinned text) returns an uninterpreted datum per ADT id; AdtDatum / AdtFlags / AdtKind are the extracted definitions, AdtDatumBound is opaque",
        "V29: a change that filters the iterator with an adaptor (Option::filter, Iterator::filter) makes the unit UNDECIDED, not a violation",
    ],
    "trusted": ["chalk-ir Substitution (abstract)", "builtin_traits::needs_impl_for_tys (last_field_of_struct: callee contract here, verified in V33)"],
})

# -------------------------------------------------------------------------- V34
V({
    "id": "V34",
    "title": "antiunifier_consts: AntiUnifier::{aggregate_consts, new_ty_variable, new_lifetime_variable, new_const_variable} (chalk-engine/src/slg/aggregate.rs)",
    "template": "v34_antiunifier_consts.rs",
    "assumptions": [
        "V34: InferenceTable::new_variable returns the table's next variable, unknown so far, and records it in the given universe (abstract table: map variable -> universe); EnaVariable::{to_ty, to_lifetime, to_const} are constructors; Const::data returns the interned data",
        "V34: ConcreteConst::const_eq is the interner's (uninterpreted) equality of constant values; derived PartialEq / Clone of Const and Ty mean equality",
        "V34: 'instance of' is not defined in the unit: the contract states the two facts it follows from - the result is the first constant only when both carry the same placeholder / equal concrete values, and otherwise a FRESH variable of the anti-unifier's universe typed like the first constant",
        "V34: not in the unit: AntiUnifier::aggregate_tys and its helpers (closures capturing &mut self), aggregate_lifetimes (`match *void {}` on the empty enum Void, not representable in this Verus), aggregate_generic_args (casts); merge_into_guidance (iterator code)",
    ],
    "trusted": ["chalk-solve InferenceTable::new_variable (abstract)"],
})

# -------------------------------------------------------------------------- V33
V({
    "id": "V33",
    "title": "last_field: builtin_traits::last_field_of_struct (chalk-solve/src/clauses/builtin_traits.rs) — the helper V11 / V29 assume",
    "template": "v33_last_field.rs",
    "assumptions": [
        "V33: chalk-ir Binders is abstract (skip() = the value under the binders, vars() = the variables bound): map_ref / filter_map run the closure once on that value and keep the variables, substitute is an uninterpreted function of (variables, value, arguments)",
        "V33: the two closures are annotated in place (edit I5: parameter types, result name, ensures) - Verus proves each closure body against its ensures; std's slice::last / Option::cloned per vstd; derived Clone of Ty returns an equal value",
        "V33: precondition = invariant of the datum: an ADT of kind Struct has exactly one variant (lowering, rustc); RustIrDatabase::adt_datum returns an uninterpreted datum per id",
        "V33: a change that restructures the closures (none, other parameter names, block bodies) makes the unit UNDECIDED, not a violation",
    ],
    "trusted": ["chalk-ir Binders::{map_ref, filter_map, substitute} (abstract)"],
})

# -------------------------------------------------------------------------- V30
V({
    "id": "V30",
    "title": "ucanon_leaves: UMapToCanonical::{fold_free_placeholder_ty, fold_free_placeholder_lifetime, fold_free_placeholder_const, forbid_inference_vars, interner}, UMapFromCanonical::{the same five} (chalk-solve/src/infer/ucanonicalize.rs)",
    "template": "v30_ucanon_leaves.rs",
    "assumptions": [
        "V30: UniverseMap is abstract with the two maps as uninterpreted functions (their laws: unit K8 on the real code); PlaceholderIndex casts are constructors; the fold of a constant's type through `as_dyn` is an uninterpreted function (the trait object is an opaque type)",
        "V30: a callback that an impl does not override is checked against the trait's default (chalk-ir/src/fold.rs: keeps the placeholder as it is; proved by V16), through a stand-in supplied by the template (`ifabsent=block:`), and stated as such in the evidence",
    ],
    "trusted": ["chalk-ir fold driver", "UniverseMap (abstract; K8)"],
})

# -------------------------------------------------------------------------- V31
V({
    "id": "V31",
    "title": "inverter_callbacks: Inverter::{interner, forbid_free_vars, forbid_inference_vars} and the PRESENCE of its three placeholder callbacks (chalk-solve/src/infer/invert.rs)",
    "template": "v31_inverter.rs",
    "assumptions": [
        "V31: the bodies of Inverter::fold_free_placeholder_{ty,lifetime,const} use the hash-map entry API with a closure that captures &mut (outside Verus): when they are present NOTHING about them is verified (stated per function in the evidence); when one is absent the trait's default (keeps the placeholder; V16) is what runs, and the contract 'the result is not that placeholder' is checked against it",
    ],
    "trusted": ["Inverter's three placeholder callbacks (bodies not verified)"],
})

# -------------------------------------------------------------------------- V32
V({
    "id": "V32",
    "title": "subst_callbacks: Subst::{fold_free_var_ty, fold_free_var_lifetime, fold_free_var_const, interner} (chalk-ir/src/fold/subst.rs), both branches",
    "template": "v32_subst.rs",
    "assumptions": [
        "V32: BoundVar::{index_if_innermost, shifted_out, shifted_in_from} under the contracts proved by K1 (Kani, full domain); Shift::shifted_in_from on whole terms, GenericArg::data and the bound-variable casts are abstract (uninterpreted)",
        "V32: precondition: the substitution fits the binder it eliminates (index in range, parameter of the variable's kind - the code panics otherwise) and the depth arithmetic does not overflow",
    ],
    "trusted": ["chalk-ir Shift on whole terms (abstract)"],
})

# ===========================================================================
GLOBAL_ASSUMPTIONS = [
    "soundness of rustc+Kani's model of core/alloc and of CBMC; soundness of Verus and Z3",
    "checks run on a scratch copy of /repo's working tree; injected text is add-only and cfg(kani)-guarded",
]

# ------------------------------------------------------- property -> unit map
# each entry: (unit id, regex restricting the harnesses of that unit that serve
# the property, or None).
PROPERTY_UNITS = {}
# per-property metadata used for MANIFEST.json and evidence
PROPERTIES = {}
NOT_APPLICABLE = {}


def P(pid, units, category, text, note, technique, design_ref="DESIGN.md section 5"):
    PROPERTY_UNITS[pid] = units
    PROPERTIES[pid] = {"category": category, "level_text": text, "level_note": note, "technique": technique, "design_ref": design_ref}


from properties_map import *  # noqa: E402,F401,F403
