// Unit V28 `ty_size_visitor` — Verus.  C02 / C09 (the size limit "needs_truncation"): the visitor that
// measures a goal, `TySizeVisitor::visit_ty` (chalk-solve/src/solve/truncate.rs).  What the limit is compared
// with is the size of the LARGEST outermost type of the goal, each measured on its own:
//   visit_ty(t) entered at depth 0 (t is an outermost type): afterwards the running counter is 0 again and
//       max_size = max(max_size before, nodes(t));
//   entered at depth d > 0 (t is a component): the running counter grew by nodes(t), max_size follows it;
//   the depth is what it was;  an unknown that is bound counts as the type it is bound to (same depth).
// nodes(t) is the number of type constructors in t after resolving bound unknowns (uninterpreted; its two
// defining equations are the assumed contracts of `normalize_ty_shallow`).  The generic visit driver
// (`visit_with` / `super_visit_with`, which call back into `visit_ty` for every component) is havoc under the
// induction hypothesis: it behaves as a sequence of `visit_ty` calls on the components.
use vstd::prelude::*;
use std::cmp::max;
use std::ops::ControlFlow;
verus! {

pub trait Interner: Sized + Copy { type DefId: Copy; }
#[verifier::external_body]
#[verifier::reject_recursive_types(I)]
pub struct Ty<I: Interner> { _p: core::marker::PhantomData<I> }
#[verifier::external_body]
#[verifier::reject_recursive_types(I)]
pub struct InferenceTable<I: Interner> { _p: core::marker::PhantomData<I> }
#[derive(Clone, Copy)]
pub struct DebruijnIndex { pub depth: u32 }

// ---- the kinds of types (chalk-ir/src/lib.rs `TyKind`, extracted; its payload types are opaque here).  Not used by the
// tree's `visit_ty`, which descends into EVERY type; present so that a variant of `visit_ty` that looks at the kind
// before descending is held against "only a kind without type arguments has no components" (see `Ty::kind` below).
#[verifier::external_body] #[verifier::reject_recursive_types(I)] pub struct AdtId<I: Interner> { _p: core::marker::PhantomData<I> }
#[verifier::external_body] #[verifier::reject_recursive_types(I)] pub struct AssocTypeId<I: Interner> { _p: core::marker::PhantomData<I> }
#[verifier::external_body] #[verifier::reject_recursive_types(I)] pub struct OpaqueTyId<I: Interner> { _p: core::marker::PhantomData<I> }
#[verifier::external_body] #[verifier::reject_recursive_types(I)] pub struct FnDefId<I: Interner> { _p: core::marker::PhantomData<I> }
#[verifier::external_body] #[verifier::reject_recursive_types(I)] pub struct ClosureId<I: Interner> { _p: core::marker::PhantomData<I> }
#[verifier::external_body] #[verifier::reject_recursive_types(I)] pub struct CoroutineId<I: Interner> { _p: core::marker::PhantomData<I> }
#[verifier::external_body] #[verifier::reject_recursive_types(I)] pub struct ForeignDefId<I: Interner> { _p: core::marker::PhantomData<I> }
#[verifier::external_body] #[verifier::reject_recursive_types(I)] pub struct Substitution<I: Interner> { _p: core::marker::PhantomData<I> }
#[verifier::external_body] #[verifier::reject_recursive_types(I)] pub struct Const<I: Interner> { _p: core::marker::PhantomData<I> }
#[verifier::external_body] #[verifier::reject_recursive_types(I)] pub struct Lifetime<I: Interner> { _p: core::marker::PhantomData<I> }
#[verifier::external_body] #[verifier::reject_recursive_types(I)] pub struct DynTy<I: Interner> { _p: core::marker::PhantomData<I> }
#[verifier::external_body] #[verifier::reject_recursive_types(I)] pub struct AliasTy<I: Interner> { _p: core::marker::PhantomData<I> }
#[verifier::external_body] #[verifier::reject_recursive_types(I)] pub struct FnPointer<I: Interner> { _p: core::marker::PhantomData<I> }
#[verifier::external_body] pub struct Scalar { _p: () }
#[verifier::external_body] pub struct Mutability { _p: () }
#[verifier::external_body] pub struct PlaceholderIndex { _p: () }
#[verifier::external_body] pub struct BoundVar { _p: () }
#[verifier::external_body] pub struct InferenceVar { _p: () }
#[verifier::external_body] pub struct TyVariableKind { _p: () }
//@TYPE file=chalk-ir/src/lib.rs kind=enum name=TyKind attrs="#[verifier::reject_recursive_types(I)]"
/// the kinds that carry no type, lifetime or constant argument (chalk-ir's definition of TyKind, read off the variants above)
pub open spec fn is_leaf_kind<I: Interner>(k: TyKind<I>) -> bool {
    k is Scalar || k is Str || k is Never || k is Foreign || k is Error || k is Placeholder || k is BoundVar || k is InferenceVar
}



/// std::cmp::max: "Returns the second argument if the comparison determines them to be equal."
pub assume_specification<T: Ord>[ std::cmp::max ](a: T, b: T) -> (r: T)
    ensures T::obeys_cmp_spec() ==> r == (if a.cmp_spec(&b) is Greater { a } else { b });
use vstd::std_specs::cmp::OrdSpec;

// real definition (extracted)
//@TYPE file=chalk-solve/src/solve/truncate.rs kind=struct name=TySizeVisitor attrs="#[verifier::reject_recursive_types(I)]"

// ------------------------------------------------------- specification level
/// number of type constructors in `t`, bound unknowns resolved through the table
pub uninterp spec fn nodes<I: Interner>(table: InferenceTable<I>, t: Ty<I>) -> nat;
/// ... in the components of `t` (everything below its outermost constructor)
pub uninterp spec fn component_nodes<I: Interner>(table: InferenceTable<I>, t: Ty<I>) -> nat;
pub open spec fn max_nat(a: nat, b: nat) -> nat { if a >= b { a } else { b } }

/// what visiting something that contributes `n` type constructors does to the counters
pub open spec fn counted<I: Interner>(before: TySizeVisitor<'_, I>, after: TySizeVisitor<'_, I>, n: nat) -> bool {
    &&& after.v_depth() == before.v_depth()
    &&& after.v_table() == before.v_table()
    &&& before.v_depth() == 0 ==> after.v_size() == 0 && after.v_max() == max_nat(before.v_max() as nat, n)
    &&& before.v_depth() > 0 ==> after.v_size() == before.v_size() + n && after.v_max() == max_nat(before.v_max() as nat, before.v_size() as nat + n)
}

impl<I: Interner> InferenceTable<I> {
    /// infer.rs: `Some(value)` iff `leaf` is an unknown that is bound.  ASSUMED with it: the two defining equations of `nodes`.
    #[verifier::external_body]
    pub fn normalize_ty_shallow(&mut self, interner: I, leaf: &Ty<I>) -> (r: Option<Ty<I>>)
        ensures
            *final(self) == *old(self),
            r matches Some(n) ==> nodes(*old(self), *leaf) == nodes(*old(self), n),
            r is None ==> nodes(*old(self), *leaf) == 1 + component_nodes(*old(self), *leaf),
    { unimplemented!() }
}
impl<I: Interner> Ty<I> {
    pub uninterp spec fn spec_kind(&self) -> TyKind<I>;
    /// chalk-ir `Ty::kind`.  ASSUMED with it: a type of a kind without arguments has no components (and nothing is
    /// assumed about the components of any other kind)
    #[verifier::external_body]
    pub fn kind(&self, interner: I) -> (r: &TyKind<I>)
        ensures *r == self.spec_kind(),
            is_leaf_kind(*r) ==> forall|table: InferenceTable<I>| #[trigger] component_nodes(table, *self) == 0,
    { unimplemented!() }
    /// HAVOC (generic visit driver): `visit_with` on a type calls the visitor's `visit_ty` on it — induction hypothesis
    #[verifier::external_body]
    pub fn visit_with<'a>(&self, visitor: &mut TySizeVisitor<'a, I>, outer_binder: DebruijnIndex) -> (r: ControlFlow<()>)
        requires
            old(visitor).v_size() + nodes(old(visitor).v_table(), *self) < usize::MAX,
            old(visitor).v_depth() < usize::MAX - 1,
        ensures counted(*old(visitor), *final(visitor), nodes(old(visitor).v_table(), *self)),
    { unimplemented!() }
    /// HAVOC (generic visit driver): `super_visit_with` calls `visit_ty` on each component in turn, at the depth the
    /// visitor is at — never at depth 0, so the counts add up
    #[verifier::external_body]
    pub fn super_visit_with<'a>(&self, visitor: &mut TySizeVisitor<'a, I>, outer_binder: DebruijnIndex) -> (r: ControlFlow<()>)
        requires
            old(visitor).v_depth() > 0,
            old(visitor).v_size() + component_nodes(old(visitor).v_table(), *self) < usize::MAX,
        ensures counted(*old(visitor), *final(visitor), component_nodes(old(visitor).v_table(), *self)),
    { unimplemented!() }
}

impl<'infer, I: Interner> TySizeVisitor<'infer, I> {
    pub closed spec fn v_size(self) -> usize { self.size }
    pub closed spec fn v_depth(self) -> usize { self.depth }
    pub closed spec fn v_max(self) -> usize { self.max_size }
    pub closed spec fn v_table(self) -> InferenceTable<I> { *self.infer }
//@FN file=chalk-solve/src/solve/truncate.rs within="^impl<'infer, I: Interner> TySizeVisitor<'infer, I>$" fn=new contract=new path=TySizeVisitor::new
}
//@CONTRACT new
    ensures r.v_size() == 0, r.v_depth() == 0, r.v_max() == 0, r.v_table() == *old(infer),
//@END

// ------------------------------------------------------------- real functions
/// chalk-ir's `TypeVisitor`, the methods this impl overrides (`as_dyn` returns `&mut dyn TypeVisitor` of the trait
/// being defined, which Verus rejects; it is not extracted)
pub trait TypeVisitor<I: Interner>: Sized {
    /// (Verus takes preconditions of trait methods from the trait declaration only)
    spec fn visit_ty_pre(self, ty: Ty<I>) -> bool;
    fn visit_ty(&mut self, ty: &Ty<I>, outer_binder: DebruijnIndex) -> ControlFlow<()>
        requires old(self).visit_ty_pre(*ty);
    fn interner(&self) -> I;
}
impl<'infer, I: Interner> TypeVisitor<I> for TySizeVisitor<'infer, I> {
    open spec fn visit_ty_pre(self, ty: Ty<I>) -> bool {
        // machine arithmetic: the counters do not overflow (sizes are bounded by the memory holding the type)
        &&& self.v_size() + nodes(self.v_table(), ty) < usize::MAX
        &&& self.v_depth() < usize::MAX - 1
        // the running counter is only non-zero inside a type
        &&& self.v_depth() == 0 ==> self.v_size() == 0
    }
//@FN file=chalk-solve/src/solve/truncate.rs within="^impl<'infer, I: Interner> TypeVisitor<I> for TySizeVisitor<'infer, I>$" fn=visit_ty contract=visit_ty path=TySizeVisitor::visit_ty
//@FN file=chalk-solve/src/solve/truncate.rs within="^impl<'infer, I: Interner> TypeVisitor<I> for TySizeVisitor<'infer, I>$" fn=interner contract=nothing path=TySizeVisitor::interner
}
//@CONTRACT nothing
//@END
//@CONTRACT visit_ty
    ensures
        counted(*old(self), *final(self), nodes(old(self).v_table(), *ty)),
//@END

} // verus!
fn main() {}
