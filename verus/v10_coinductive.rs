// Unit V10 `coinductive_goal` — Verus.  C05: exactly which goals are solved
// with coinductive semantics.
use vstd::prelude::*;
verus! {

// ------------------------------------------------------------------ prelude
pub trait Interner: Sized + Copy { type DefId: Copy; }
pub trait HasInterner { type Interner: Interner; }

macro_rules! abstract_ty {
    ($($n:ident),*) => { verus! { $(
        #[verifier::external_body]
        #[verifier::reject_recursive_types(I)]
        pub struct $n<I: Interner> { _p: core::marker::PhantomData<I> }
    )* } }
}
abstract_ty!(Ty, Substitution, AliasEq, LifetimeOutlives, TypeOutlives, Normalize, ProgramClauses, Goals, EqGoal, SubtypeGoal, VariableKinds, Environment, CanonicalVarKinds, TraitDatum);

#[verifier::external_body]
#[verifier::reject_recursive_types(I)]
pub struct Goal<I: Interner> { _p: core::marker::PhantomData<I> }
impl<I: Interner> HasInterner for Goal<I> { type Interner = I; }
impl<G: HasInterner> HasInterner for InEnvironment<G> { type Interner = G::Interner; }

// real definitions (extracted)
//@TYPE file=chalk-ir/src/lib.rs kind=struct name=TraitId attrs="#[verifier::reject_recursive_types(I)]"
//@TYPE file=chalk-ir/src/lib.rs kind=struct name=TraitRef attrs="#[verifier::reject_recursive_types(I)]"
//@TYPE file=chalk-ir/src/lib.rs kind=enum name=WhereClause attrs="#[verifier::reject_recursive_types(I)]"
//@TYPE file=chalk-ir/src/lib.rs kind=enum name=WellFormed attrs="#[verifier::reject_recursive_types(I)]"
//@TYPE file=chalk-ir/src/lib.rs kind=enum name=FromEnv attrs="#[verifier::reject_recursive_types(I)]"
//@TYPE file=chalk-ir/src/lib.rs kind=enum name=DomainGoal attrs="#[verifier::reject_recursive_types(I)]"
//@TYPE file=chalk-ir/src/lib.rs kind=enum name=QuantifierKind
//@TYPE file=chalk-ir/src/lib.rs kind=struct name=Binders attrs="#[verifier::reject_recursive_types(T)]"
//@TYPE file=chalk-ir/src/lib.rs kind=enum name=GoalData attrs="#[verifier::reject_recursive_types(I)]"
//@TYPE file=chalk-ir/src/lib.rs kind=struct name=Canonical attrs="#[verifier::reject_recursive_types(T)]"
//@TYPE file=chalk-ir/src/lib.rs kind=struct name=UCanonical attrs="#[verifier::reject_recursive_types(T)]"
//@TYPE file=chalk-ir/src/lib.rs kind=struct name=InEnvironment attrs="#[verifier::reject_recursive_types(G)]"

impl<I: Interner> Copy for TraitId<I> {}
impl<I: Interner> Clone for TraitId<I> { #[verifier::external_body] fn clone(&self) -> (r: Self) ensures r == *self { unimplemented!() } }

// ---- abstract views and callee contracts (assumed)
pub uninterp spec fn goal_data<I: Interner>(g: Goal<I>) -> GoalData<I>;
/// goals are finite trees: the body of a quantified goal is smaller than the goal
pub uninterp spec fn goal_height<I: Interner>(g: Goal<I>) -> nat;

impl<I: Interner> Goal<I> {
    #[verifier::external_body]
    pub fn data(&self, interner: I) -> (r: &GoalData<I>)
        ensures
            *r == goal_data(*self),
            match *r { GoalData::Quantified(_, b) => goal_height(b.spec_value()) < goal_height(*self), _ => true },
    { unimplemented!() }
}
impl<T: HasInterner> Binders<T> {
    pub closed spec fn spec_value(self) -> T { self.value }
//@FN file=chalk-ir/src/lib.rs within="^impl<T: HasInterner> Binders<T>$" fn=skip_binders contract=skip_binders path=Binders::skip_binders
}
//@CONTRACT skip_binders
    ensures *r == self.spec_value(),
//@END

pub uninterp spec fn trait_is_auto<I: Interner>(d: TraitDatum<I>) -> bool;
pub uninterp spec fn trait_is_coinductive<I: Interner>(d: TraitDatum<I>) -> bool;
impl<I: Interner> TraitDatum<I> {
    #[verifier::external_body]
    pub fn is_auto_trait(&self) -> (r: bool) ensures r == trait_is_auto(*self) { unimplemented!() }
    #[verifier::external_body]
    pub fn is_coinductive_trait(&self) -> (r: bool) ensures r == trait_is_coinductive(*self) { unimplemented!() }
}

pub trait RustIrDatabase<I: Interner> {
    spec fn datum(&self, id: TraitId<I>) -> TraitDatum<I>;
    fn interner(&self) -> I;
    fn trait_datum(&self, trait_id: TraitId<I>) -> (r: std::sync::Arc<TraitDatum<I>>)
        ensures *r == self.datum(trait_id);
}

// ------------------------------------------------------- specification level
/// C05 / chalk book "coinduction": the goals solved coinductively are
/// `T: AutoTrait`, `T: CoinductiveTrait`, `WellFormed(T: Trait)` and universal
/// quantifications of those.  Everything else is inductive.
pub open spec fn coinductive_spec<I: Interner>(g: Goal<I>, db: &dyn RustIrDatabase<I>) -> bool
    decreases goal_height(g)
{
    match goal_data(g) {
        GoalData::DomainGoal(DomainGoal::Holds(WhereClause::Implemented(tr))) =>
            trait_is_auto(db.datum(tr.trait_id)) || trait_is_coinductive(db.datum(tr.trait_id)),
        GoalData::DomainGoal(DomainGoal::WellFormed(WellFormed::Trait(_))) => true,
        GoalData::Quantified(QuantifierKind::ForAll, b) =>
            if goal_height(b.spec_value()) < goal_height(g) { coinductive_spec(b.spec_value(), db) } else { false },
        _ => false,
    }
}

// ------------------------------------------------------------- real functions
pub trait IsCoinductive<I: Interner> {
    spec fn spec_coinductive(&self, db: &dyn RustIrDatabase<I>) -> bool;
    fn is_coinductive(&self, db: &dyn RustIrDatabase<I>) -> (r: bool)
        ensures r == self.spec_coinductive(db);
}

impl<I: Interner> IsCoinductive<I> for Goal<I> {
    open spec fn spec_coinductive(&self, db: &dyn RustIrDatabase<I>) -> bool { coinductive_spec(*self, db) }
//@FN file=chalk-solve/src/coinductive_goal.rs within="^impl<I: Interner> IsCoinductive<I> for Goal<I>$" fn=is_coinductive contract=goal_is_coinductive path="<Goal as IsCoinductive>::is_coinductive"
}

impl<I: Interner> IsCoinductive<I> for UCanonical<InEnvironment<Goal<I>>> {
    open spec fn spec_coinductive(&self, db: &dyn RustIrDatabase<I>) -> bool { coinductive_spec(self.canonical.value.goal, db) }
//@FN file=chalk-solve/src/coinductive_goal.rs within="^impl<I: Interner> IsCoinductive<I> for UCanonical<InEnvironment<Goal<I>>>$" fn=is_coinductive contract=ucanon_is_coinductive path="<UCanonical<InEnvironment<Goal>> as IsCoinductive>::is_coinductive"
}

//@CONTRACT goal_is_coinductive
    decreases goal_height(*self),
//@END
//@CONTRACT ucanon_is_coinductive
//@END

// ---------------------------------------------------- lemmas over the contract
/// every goal kind other than the three listed is inductive
pub proof fn lemma_inductive_kinds<I: Interner>(g: Goal<I>, db: &dyn RustIrDatabase<I>)
    ensures
        goal_data(g) is Implies ==> !coinductive_spec(g, db),
        goal_data(g) is All ==> !coinductive_spec(g, db),
        goal_data(g) is Not ==> !coinductive_spec(g, db),
        goal_data(g) is EqGoal ==> !coinductive_spec(g, db),
        goal_data(g) is SubtypeGoal ==> !coinductive_spec(g, db),
        goal_data(g) is CannotProve ==> !coinductive_spec(g, db),
        (forall|b: Binders<Goal<I>>| goal_data(g) == GoalData::<I>::Quantified(QuantifierKind::Exists, b) ==> !coinductive_spec(g, db)),
        (forall|a: AliasEq<I>| goal_data(g) == GoalData::<I>::DomainGoal(DomainGoal::Holds(WhereClause::AliasEq(a))) ==> !coinductive_spec(g, db)),
        (forall|n: Normalize<I>| goal_data(g) == GoalData::<I>::DomainGoal(DomainGoal::Normalize(n)) ==> !coinductive_spec(g, db)),
        (forall|f: FromEnv<I>| goal_data(g) == GoalData::<I>::DomainGoal(DomainGoal::FromEnv(f)) ==> !coinductive_spec(g, db)),
        (forall|t: Ty<I>| goal_data(g) == GoalData::<I>::DomainGoal(DomainGoal::WellFormed(WellFormed::Ty(t))) ==> !coinductive_spec(g, db)),
{
}

} // verus!
fn main() {}
