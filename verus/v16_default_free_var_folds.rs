// Unit V16 `default_free_var_folds` — Verus.  C25 "folding any term with a folder that
// changes nothing returns an equal term": the DEFAULT callbacks for free variables of
// `FallibleTypeFolder` / `TypeFolder` (chalk-ir/src/fold.rs).  The fold driver hands them a
// free variable already shifted OUT of the `outer_binder` binders it has traversed; to give
// back the same occurrence the callback must shift it back IN by exactly `outer_binder`,
// keeping index and (for constants) the constant's type folded at the same depth.
use vstd::prelude::*;
verus! {

pub trait Interner: Sized + Copy { type DefId: Copy; }

macro_rules! abstract_ty {
    ($($n:ident),*) => { verus! { $(
        #[verifier::external_body]
        #[verifier::reject_recursive_types(I)]
        pub struct $n<I: Interner> { _p: core::marker::PhantomData<I> }
    )* } }
}
abstract_ty!(Ty, Lifetime, Const);

// real definitions (extracted)
//@TYPE file=chalk-ir/src/lib.rs kind=struct name=DebruijnIndex attrs="#[derive(Clone, Copy)]"
//@TYPE file=chalk-ir/src/lib.rs kind=struct name=BoundVar attrs="#[derive(Clone, Copy)]"

impl DebruijnIndex {
    pub closed spec fn d(self) -> u32 { self.depth }
//@FN file=chalk-ir/src/lib.rs within="^impl DebruijnIndex$" fn=new contract=db_new path=DebruijnIndex::new
//@FN file=chalk-ir/src/lib.rs within="^impl DebruijnIndex$" fn=depth contract=db_depth path=DebruijnIndex::depth
//@FN file=chalk-ir/src/lib.rs within="^impl DebruijnIndex$" fn=shifted_in_from contract=db_shifted_in_from path=DebruijnIndex::shifted_in_from
}
impl BoundVar {
//@FN file=chalk-ir/src/lib.rs within="^impl BoundVar$" fn=new contract=bv_new path=BoundVar::new
//@FN file=chalk-ir/src/lib.rs within="^impl BoundVar$" fn=shifted_in_from contract=bv_shifted_in_from path=BoundVar::shifted_in_from
//@FN file=chalk-ir/src/lib.rs within="^impl BoundVar$" fn=to_ty contract=bv_to_ty path=BoundVar::to_ty
//@FN file=chalk-ir/src/lib.rs within="^impl BoundVar$" fn=to_lifetime contract=bv_to_lifetime path=BoundVar::to_lifetime
//@FN file=chalk-ir/src/lib.rs within="^impl BoundVar$" fn=to_const contract=bv_to_const path=BoundVar::to_const
}
//@CONTRACT bv_to_ty
    ensures r == ty_of_kind(TyKind::<I>::BoundVar(self)),
//@END
//@CONTRACT bv_to_lifetime
    ensures r == lifetime_of_data(LifetimeData::<I>::BoundVar(self)),
//@END
//@CONTRACT bv_to_const
    ensures r == const_of_data(ConstData { ty, value: ConstValue::<I>::BoundVar(self) }),
//@END
//@CONTRACT db_new
    ensures r.d() == depth,
//@END
//@CONTRACT db_depth
    ensures r == self.d(),
//@END
//@CONTRACT db_shifted_in_from
    requires self.d() + outer_binder.d() <= u32::MAX,
    ensures r.d() == self.d() + outer_binder.d(),
//@END
//@CONTRACT bv_new
    ensures r.debruijn == debruijn, r.index == index,
//@END
//@CONTRACT bv_shifted_in_from
    requires self.debruijn.d() + outer_binder.d() <= u32::MAX,
    ensures r.index == self.index, r.debruijn.d() == self.debruijn.d() + outer_binder.d(), r == shifted(self, outer_binder),
//@END

// ---- abstract views of the interned terms the callbacks build (constructors, assumed)
pub enum TyKind<I: Interner> { BoundVar(BoundVar), Other(I) }
pub enum LifetimeData<I: Interner> { BoundVar(BoundVar), Other(I) }
pub enum ConstValue<I: Interner> { BoundVar(BoundVar), Other(I) }
#[verifier::reject_recursive_types(I)]
pub struct ConstData<I: Interner> { pub ty: Ty<I>, pub value: ConstValue<I> }
pub uninterp spec fn ty_of_kind<I: Interner>(k: TyKind<I>) -> Ty<I>;
pub uninterp spec fn lifetime_of_data<I: Interner>(k: LifetimeData<I>) -> Lifetime<I>;
pub uninterp spec fn const_of_data<I: Interner>(k: ConstData<I>) -> Const<I>;
impl<I: Interner> TyKind<I> {
    #[verifier::external_body]
    pub fn intern(self, interner: I) -> (r: Ty<I>) ensures r == ty_of_kind(self) { unimplemented!() }
}
impl<I: Interner> LifetimeData<I> {
    #[verifier::external_body]
    pub fn intern(self, interner: I) -> (r: Lifetime<I>) ensures r == lifetime_of_data(self) { unimplemented!() }
}
impl<I: Interner> ConstData<I> {
    #[verifier::external_body]
    pub fn intern(self, interner: I) -> (r: Const<I>) ensures r == const_of_data(self) { unimplemented!() }
}
#[verifier::external_body]
#[verifier::reject_recursive_types(I)]
#[verifier::reject_recursive_types(E)]
pub struct DynFallibleFolder<I: Interner, E> { _p: core::marker::PhantomData<(I, E)> }
#[verifier::external_body]
#[verifier::reject_recursive_types(I)]
pub struct DynFolder<I: Interner> { _p: core::marker::PhantomData<I> }
/// folding a type with the same folder at binder depth `ob` (the generic fold driver; abstract)
pub uninterp spec fn folded_ty<I: Interner>(t: Ty<I>, ob: DebruijnIndex) -> Ty<I>;
impl<I: Interner> Ty<I> {
    #[verifier::external_body]
    pub fn try_fold_with<E>(self, folder: &mut DynFallibleFolder<I, E>, outer_binder: DebruijnIndex) -> (r: Result<Ty<I>, E>)
        ensures r matches Ok(t) ==> t == folded_ty(self, outer_binder),
    { unimplemented!() }
    #[verifier::external_body]
    pub fn fold_with(self, folder: &mut DynFolder<I>, outer_binder: DebruijnIndex) -> (r: Ty<I>)
        ensures r == folded_ty(self, outer_binder),
    { unimplemented!() }
}

/// the occurrence the driver saw, re-bound under the binders it has traversed:
/// same index, de Bruijn depth raised by exactly `ob`
pub closed spec fn shifted(v: BoundVar, ob: DebruijnIndex) -> BoundVar {
    BoundVar { debruijn: DebruijnIndex { depth: (v.debruijn.depth + ob.depth) as u32 }, index: v.index }
}

// ------------------------------------------------------------- real functions
pub trait FallibleTypeFolder<I: Interner> {
    type Error;
    /// real type: `&mut dyn FallibleTypeFolder<I, Error = Self::Error>` (this Verus rejects `dyn` with an
    /// associated-type binding; the value is only passed on to `try_fold_with`, so an opaque type stands in)
    fn as_dyn(&mut self) -> &mut DynFallibleFolder<I, Self::Error>;
    spec fn spec_forbid_free_vars(&self) -> bool;
    fn forbid_free_vars(&self) -> (r: bool) ensures r == self.spec_forbid_free_vars();
    fn interner(&self) -> I;
//@FN file=chalk-ir/src/fold.rs within="^pub trait FallibleTypeFolder<I: Interner>$" fn=try_fold_free_var_ty contract=try_ty path=FallibleTypeFolder::try_fold_free_var_ty
//@FN file=chalk-ir/src/fold.rs within="^pub trait FallibleTypeFolder<I: Interner>$" fn=try_fold_free_var_lifetime contract=try_lifetime path=FallibleTypeFolder::try_fold_free_var_lifetime
//@FN file=chalk-ir/src/fold.rs within="^pub trait FallibleTypeFolder<I: Interner>$" fn=try_fold_free_var_const contract=try_const path=FallibleTypeFolder::try_fold_free_var_const
}

pub trait TypeFolder<I: Interner> {
    /// real type: `&mut dyn TypeFolder<I>` (a trait method mentioning `dyn` of its own trait is a definitional
    /// cycle for Verus; the value is only passed on to `fold_with`)
    fn as_dyn(&mut self) -> &mut DynFolder<I>;
    spec fn spec_forbid_free_vars(&self) -> bool;
    fn forbid_free_vars(&self) -> (r: bool) ensures r == self.spec_forbid_free_vars();
    fn interner(&self) -> I;
//@FN file=chalk-ir/src/fold.rs within="^pub trait TypeFolder<I: Interner>: FallibleTypeFolder<I, Error = Infallible>$" fn=fold_free_var_ty contract=ty path=TypeFolder::fold_free_var_ty
//@FN file=chalk-ir/src/fold.rs within="^pub trait TypeFolder<I: Interner>: FallibleTypeFolder<I, Error = Infallible>$" fn=fold_free_var_lifetime contract=lifetime path=TypeFolder::fold_free_var_lifetime
//@FN file=chalk-ir/src/fold.rs within="^pub trait TypeFolder<I: Interner>: FallibleTypeFolder<I, Error = Infallible>$" fn=fold_free_var_const contract=const_ path=TypeFolder::fold_free_var_const
}

//@CONTRACT try_ty
    requires !old(self).spec_forbid_free_vars(), bound_var.debruijn.d() + outer_binder.d() <= u32::MAX,
    ensures r matches Ok(t) ==> t == ty_of_kind(TyKind::<I>::BoundVar(shifted(bound_var, outer_binder))),
//@END
//@CONTRACT try_lifetime
    requires !old(self).spec_forbid_free_vars(), bound_var.debruijn.d() + outer_binder.d() <= u32::MAX,
    ensures r matches Ok(t) ==> t == lifetime_of_data(LifetimeData::<I>::BoundVar(shifted(bound_var, outer_binder))),
//@END
//@CONTRACT try_const
    requires !old(self).spec_forbid_free_vars(), bound_var.debruijn.d() + outer_binder.d() <= u32::MAX,
    ensures r matches Ok(t) ==> t == const_of_data(ConstData { ty: folded_ty(ty, outer_binder), value: ConstValue::<I>::BoundVar(shifted(bound_var, outer_binder)) }),
//@END
//@CONTRACT ty
    requires !old(self).spec_forbid_free_vars(), bound_var.debruijn.d() + outer_binder.d() <= u32::MAX,
    ensures r == ty_of_kind(TyKind::<I>::BoundVar(shifted(bound_var, outer_binder))),
//@END
//@CONTRACT lifetime
    requires !old(self).spec_forbid_free_vars(), bound_var.debruijn.d() + outer_binder.d() <= u32::MAX,
    ensures r == lifetime_of_data(LifetimeData::<I>::BoundVar(shifted(bound_var, outer_binder))),
//@END
//@CONTRACT const_
    requires !old(self).spec_forbid_free_vars(), bound_var.debruijn.d() + outer_binder.d() <= u32::MAX,
    ensures r == const_of_data(ConstData { ty: folded_ty(ty, outer_binder), value: ConstValue::<I>::BoundVar(shifted(bound_var, outer_binder)) }),
//@END

} // verus!
impl core::fmt::Debug for BoundVar { fn fmt(&self, _f: &mut core::fmt::Formatter<'_>) -> core::fmt::Result { Ok(()) } }
impl core::fmt::Debug for DebruijnIndex { fn fmt(&self, _f: &mut core::fmt::Formatter<'_>) -> core::fmt::Result { Ok(()) } }
fn main() {}
