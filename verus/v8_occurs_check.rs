// Unit V8 `occurs_check_leaf` — Verus.  C14: the leaf decisions of the occurs check that
// runs when an unknown `?X` (living in universe `universe_index`) is about to be bound to a
// term: the term may only mention what `?X` can name, and may not mention `?X` itself.
//   placeholder type / const of universe u : accepted iff universe_index can see u
//   placeholder lifetime of an invisible u  : replaced by a fresh lifetime variable of ?X's universe
//                                             plus the requirement that it equals the placeholder
//   unbound type variable ?Y                : REJECTED iff ?Y is (unioned with) ?X   — the occurs check;
//                                             otherwise kept, its universe lowered to ?X's if it was higher
//   bound variable                          : its value is checked instead (generic fold, abstract)
use vstd::prelude::*;
verus! {

pub trait Interner: Sized + Copy { type DefId: Copy; }
pub trait HasInterner { type Interner: Interner; }
pub trait UnificationDatabase<I: Interner> {}

macro_rules! abstract_ty {
    ($($n:ident),*) => { verus! { $(
        #[verifier::external_body]
        #[verifier::reject_recursive_types(I)]
        pub struct $n<I: Interner> { _p: core::marker::PhantomData<I> }
    )* } }
}
abstract_ty!(Environment, Goal, Lifetime, Ty, Const, EnaVariable, GenericArg, EnaTable);
impl<I: Interner> HasInterner for Goal<I> { type Interner = I; }
impl<I: Interner> Copy for EnaVariable<I> {}
impl<I: Interner> Clone for EnaVariable<I> { #[verifier::external_body] fn clone(&self) -> (r: Self) ensures r == *self { unimplemented!() } }
impl<I: Interner> vstd::std_specs::cmp::PartialEqSpecImpl for EnaVariable<I> {
    open spec fn obeys_eq_spec() -> bool { true }
    open spec fn eq_spec(&self, other: &Self) -> bool { *self == *other }
}
impl<I: Interner> PartialEq for EnaVariable<I> { #[verifier::external_body] fn eq(&self, other: &Self) -> bool { unimplemented!() } }
//@CLONE_EQ generics="I: Interner" type="Ty<I>"
//@CLONE_EQ generics="I: Interner" type="Const<I>"
//@CLONE_EQ generics="I: Interner" type="Lifetime<I>"

pub struct NoSolution;
pub type Fallible<T> = Result<T, NoSolution>;
#[verifier::external_body] pub struct InferenceVar { _p: () }
impl Copy for InferenceVar {}
impl Clone for InferenceVar { #[verifier::external_body] fn clone(&self) -> (r: Self) ensures r == *self { unimplemented!() } }

// real definitions (extracted)
//@TYPE file=chalk-ir/src/lib.rs kind=enum name=Variance attrs="#[derive(Clone, Copy)]"
//@TYPE file=chalk-ir/src/lib.rs kind=enum name=TyVariableKind attrs="#[derive(Clone, Copy)]"
//@TYPE file=chalk-ir/src/lib.rs kind=struct name=UniverseIndex attrs="#[derive(Clone, Copy)]"
//@TYPE file=chalk-ir/src/lib.rs kind=struct name=PlaceholderIndex attrs="#[derive(Clone, Copy)]"
//@TYPE file=chalk-ir/src/lib.rs kind=struct name=InEnvironment attrs="#[verifier::reject_recursive_types(G)]"
//@TYPE file=chalk-solve/src/infer/var.rs kind=enum name=InferenceValue attrs="#[verifier::reject_recursive_types(I)]"
//@TYPE file=chalk-solve/src/infer/unify.rs kind=struct name=Unifier attrs="#[verifier::reject_recursive_types(I)]"
//@TYPE file=chalk-solve/src/infer/unify.rs kind=struct name=OccursCheck attrs="#[verifier::reject_recursive_types(I)]"

// (only passed on to the generic fold; the real struct has a private field, which Verus does not allow in a pub const)
#[derive(Clone, Copy)]
pub struct DebruijnIndex { pub depth: u32 }
impl DebruijnIndex { pub const INNERMOST: DebruijnIndex = DebruijnIndex { depth: 0 }; }
// `#[derive(PartialOrd, Ord)]` on UniverseIndex { counter }: the order of the counter (= `can_see`, unit K1)
impl vstd::std_specs::cmp::PartialEqSpecImpl for UniverseIndex {
    open spec fn obeys_eq_spec() -> bool { true }
    open spec fn eq_spec(&self, other: &Self) -> bool { self.counter == other.counter }
}
impl PartialEq for UniverseIndex { #[verifier::external_body] fn eq(&self, other: &Self) -> bool { unimplemented!() } }
impl vstd::std_specs::cmp::PartialOrdSpecImpl for UniverseIndex {
    open spec fn obeys_partial_cmp_spec() -> bool { true }
    open spec fn partial_cmp_spec(&self, other: &Self) -> Option<core::cmp::Ordering> {
        if self.counter < other.counter { Some(core::cmp::Ordering::Less) } else if self.counter == other.counter { Some(core::cmp::Ordering::Equal) } else { Some(core::cmp::Ordering::Greater) }
    }
}
impl PartialOrd for UniverseIndex { #[verifier::external_body] fn partial_cmp(&self, other: &Self) -> Option<core::cmp::Ordering> { unimplemented!() } }

impl UniverseIndex {
    pub const ROOT: UniverseIndex = UniverseIndex { counter: 0 };
//@FN file=chalk-ir/src/lib.rs within="^impl UniverseIndex$" fn=can_see contract=can_see path=UniverseIndex::can_see
//@FN file=chalk-ir/src/lib.rs within="^impl UniverseIndex$" fn=root contract=ui_root path=UniverseIndex::root
}
//@CONTRACT ui_root
    ensures r.counter == 0,
//@END
//@CONTRACT can_see
    ensures r == (self.counter >= ui.counter),
//@END

// ---- abstract views and callee contracts (assumed)
pub uninterp spec fn ena_of<I: Interner>(v: InferenceVar) -> EnaVariable<I>;
pub uninterp spec fn ty_of_var<I: Interner>(v: EnaVariable<I>, k: TyVariableKind) -> Ty<I>;
pub uninterp spec fn lifetime_of_var<I: Interner>(v: EnaVariable<I>) -> Lifetime<I>;
pub uninterp spec fn var_of_lifetime<I: Interner>(l: Lifetime<I>) -> EnaVariable<I>;
pub uninterp spec fn const_of_var<I: Interner>(v: EnaVariable<I>, ty: Ty<I>) -> Const<I>;
pub uninterp spec fn ty_of_placeholder<I: Interner>(p: PlaceholderIndex) -> Ty<I>;
pub uninterp spec fn lifetime_of_placeholder<I: Interner>(p: PlaceholderIndex) -> Lifetime<I>;
pub uninterp spec fn const_of_placeholder<I: Interner>(p: PlaceholderIndex, ty: Ty<I>) -> Const<I>;

impl<I: Interner> From<InferenceVar> for EnaVariable<I> {
    #[verifier::external_body]
    fn from(var: InferenceVar) -> (r: Self) ensures r == ena_of::<I>(var) { unimplemented!() }
}
impl<I: Interner> EnaVariable<I> {
    #[verifier::external_body]
    pub fn to_ty_with_kind(self, interner: I, kind: TyVariableKind) -> (r: Ty<I>) ensures r == ty_of_var(self, kind) { unimplemented!() }
    #[verifier::external_body]
    pub fn to_lifetime(self, interner: I) -> (r: Lifetime<I>) ensures r == lifetime_of_var(self), var_of_lifetime(r) == self { unimplemented!() }
    #[verifier::external_body]
    pub fn to_const(self, interner: I, ty: Ty<I>) -> (r: Const<I>) ensures r == const_of_var(self, ty) { unimplemented!() }
}
impl PlaceholderIndex {
    #[verifier::external_body]
    pub fn to_ty<I: Interner>(self, interner: I) -> (r: Ty<I>) ensures r == ty_of_placeholder::<I>(self) { unimplemented!() }
    #[verifier::external_body]
    pub fn to_lifetime<I: Interner>(self, interner: I) -> (r: Lifetime<I>) ensures r == lifetime_of_placeholder::<I>(self) { unimplemented!() }
    #[verifier::external_body]
    pub fn to_const<I: Interner>(self, interner: I, ty: Ty<I>) -> (r: Const<I>) ensures r == const_of_placeholder::<I>(self, ty) { unimplemented!() }
}
impl<I: Interner> GenericArg<I> {
    #[verifier::external_body]
    pub fn assert_ty_ref(&self, interner: I) -> &Ty<I> { unimplemented!() }
    #[verifier::external_body]
    pub fn assert_lifetime_ref(&self, interner: I) -> &Lifetime<I> { unimplemented!() }
    #[verifier::external_body]
    pub fn assert_const_ref(&self, interner: I) -> &Const<I> { unimplemented!() }
}
impl<I: Interner> Lifetime<I> {
    #[verifier::external_body]
    pub fn needs_shift(&self, interner: I) -> (r: bool) ensures r == spec_lt_needs_shift(*self) { unimplemented!() }
    #[verifier::external_body]
    pub fn try_fold_with<'u, 't>(self, folder: &mut OccursCheck<'u, 't, I>, outer_binder: DebruijnIndex) -> (r: Fallible<Lifetime<I>>)
        ensures final(folder).v_var() == old(folder).v_var(), final(folder).v_universe() == old(folder).v_universe(),
                r matches Ok(t) ==> !spec_lt_needs_shift(t),
    { unimplemented!() }
}
impl<I: Interner> Const<I> {
    #[verifier::external_body]
    pub fn needs_shift(&self, interner: I) -> (r: bool) ensures r == spec_ct_needs_shift(*self) { unimplemented!() }
    /// HAVOC (the generic fold of a constant with the occurs check as folder).  Besides what the leaf contracts need,
    /// its outcome is an uninterpreted function of the check's parameters and of the state it ran on, so that a
    /// caller's contract can say exactly which check was run, and on what.
    #[verifier::external_body]
    pub fn try_fold_with<'u, 't>(self, folder: &mut OccursCheck<'u, 't, I>, outer_binder: DebruijnIndex) -> (r: Fallible<Const<I>>)
        ensures final(folder).v_var() == old(folder).v_var(), final(folder).v_universe() == old(folder).v_universe(),
                r matches Ok(t) ==> !spec_ct_needs_shift(t),
                (r, final(folder).tview(), final(folder).goal_seq())
                    == spec_check_const(self, old(folder).v_var(), old(folder).v_universe(), old(folder).tview(), old(folder).goal_seq(), old(folder).env()),
                final(folder).env() == old(folder).env(),
                *final(final(folder).unifier_ref()) == *final(old(folder).unifier_ref()),
    { unimplemented!() }
}
pub uninterp spec fn spec_check_const<I: Interner>(c: Const<I>, var: EnaVariable<I>, universe: UniverseIndex, table: TableView<I>, goals: Seq<InEnvironment<Goal<I>>>, env: Environment<I>)
    -> (Fallible<Const<I>>, TableView<I>, Seq<InEnvironment<Goal<I>>>);
pub uninterp spec fn arg_of_const<I: Interner>(c: Const<I>) -> GenericArg<I>;
pub uninterp spec fn arg_of_ty<I: Interner>(t: Ty<I>) -> GenericArg<I>;
impl<I: Interner> Const<I> {
    /// `CastTo<GenericArg<I>>`
    #[verifier::external_body]
    pub fn cast(self, interner: I) -> (r: GenericArg<I>) ensures r == arg_of_const(self) { unimplemented!() }
}
impl<I: Interner> Ty<I> {
    #[verifier::external_body]
    pub fn cast(self, interner: I) -> (r: GenericArg<I>) ensures r == arg_of_ty(self) { unimplemented!() }
}
pub uninterp spec fn spec_lt_needs_shift<I: Interner>(t: Lifetime<I>) -> bool;
pub uninterp spec fn spec_ct_needs_shift<I: Interner>(t: Const<I>) -> bool;
pub uninterp spec fn spec_needs_shift<I: Interner>(t: Ty<I>) -> bool;
impl<I: Interner> Ty<I> {
    #[verifier::external_body]
    pub fn needs_shift(&self, interner: I) -> (r: bool) ensures r == spec_needs_shift(*self) { unimplemented!() }
    /// HAVOC: the generic fold of a bound variable's value with this very folder (recursion through the fold
    /// driver).  Assumed: it keeps the occurs check's own parameters, and a value stored in the table is closed
    /// (the code asserts `!needs_shift`).
    #[verifier::external_body]
    pub fn try_fold_with<'u, 't>(self, folder: &mut OccursCheck<'u, 't, I>, outer_binder: DebruijnIndex) -> (r: Fallible<Ty<I>>)
        ensures
            final(folder).v_var() == old(folder).v_var(), final(folder).v_universe() == old(folder).v_universe(),
            r matches Ok(t) ==> !spec_needs_shift(t),
            // (as for constants: the outcome is an uninterpreted function of the check's parameters and the state it ran on)
            (r, final(folder).tview(), final(folder).goal_seq())
                == spec_check_ty(self, old(folder).v_var(), old(folder).v_universe(), old(folder).tview(), old(folder).goal_seq(), old(folder).env()),
            final(folder).env() == old(folder).env(),
            *final(final(folder).unifier_ref()) == *final(old(folder).unifier_ref()),
    { unimplemented!() }
    pub uninterp spec fn spec_is_integer(self) -> bool;
    pub uninterp spec fn spec_is_float(self) -> bool;
    #[verifier::external_body]
    pub fn is_integer(&self, interner: I) -> (r: bool) ensures r == self.spec_is_integer() { unimplemented!() }
    #[verifier::external_body]
    pub fn is_float(&self, interner: I) -> (r: bool) ensures r == self.spec_is_float() { unimplemented!() }
}
pub uninterp spec fn spec_check_ty<I: Interner>(t: Ty<I>, var: EnaVariable<I>, universe: UniverseIndex, table: TableView<I>, goals: Seq<InEnvironment<Goal<I>>>, env: Environment<I>)
    -> (Fallible<Ty<I>>, TableView<I>, Seq<InEnvironment<Goal<I>>>);
/// `generalize_ty` (fresh unknowns for everything inside the type) and `relate_ty_ty`: havoc, outcome uninterpreted
pub uninterp spec fn spec_generalize_ty<I: Interner>(t: Ty<I>, universe: UniverseIndex, variance: Variance, table: TableView<I>) -> (Ty<I>, TableView<I>);
pub uninterp spec fn spec_relate_ty_ty<I: Interner>(goals: Seq<InEnvironment<Goal<I>>>, table: TableView<I>, env: Environment<I>, variance: Variance, a: Ty<I>, b: Ty<I>)
    -> (bool, Seq<InEnvironment<Goal<I>>>, TableView<I>);

/// stands for ena's `K1: Into<EnaVariable<I>>` bounds
pub trait IntoEna<I: Interner>: Sized { spec fn spec_ena(self) -> EnaVariable<I>; }
impl<I: Interner> IntoEna<I> for InferenceVar { open spec fn spec_ena(self) -> EnaVariable<I> { ena_of::<I>(self) } }
impl<I: Interner> IntoEna<I> for EnaVariable<I> { open spec fn spec_ena(self) -> EnaVariable<I> { self } }
/// union-find view of ena's table: class representative and universe of every unbound variable
#[verifier::reject_recursive_types(I)]
pub struct TableView<I: Interner> {
    pub root: Map<EnaVariable<I>, EnaVariable<I>>,
    pub value: Map<EnaVariable<I>, InferenceValue<I>>,
}
impl<I: Interner> EnaTable<I> {
    pub uninterp spec fn view(&self) -> TableView<I>;
    #[verifier::external_body]
    pub fn probe_value<K1: IntoEna<I>>(&mut self, v: K1) -> (r: InferenceValue<I>)
        ensures final(self).view() == old(self).view(), r == old(self).view().value[old(self).view().root[v.spec_ena()]]
    { unimplemented!() }
    /// ena: are the two variables in the same class?
    #[verifier::external_body]
    pub fn unioned<K1: IntoEna<I>, K2: IntoEna<I>>(&mut self, a: K1, b: K2) -> (r: bool)
        ensures final(self).view() == old(self).view(), r == (old(self).view().root[a.spec_ena()] == old(self).view().root[b.spec_ena()])
    { unimplemented!() }
    /// ena: the representative of the variable's class
    #[verifier::external_body]
    pub fn find<K1: IntoEna<I>>(&mut self, a: K1) -> (r: EnaVariable<I>)
        ensures final(self).view() == old(self).view(), r == old(self).view().root[a.spec_ena()]
    { unimplemented!() }
    /// ena: merging the classes of two UNBOUND variables cannot fail; afterwards they share a representative
    #[verifier::external_body]
    pub fn unify_var_var<K1: IntoEna<I>, K2: IntoEna<I>>(&mut self, a: K1, b: K2) -> (r: Result<(), ()>)
        ensures
            (old(self).view().value[old(self).view().root[a.spec_ena()]] is Unbound && old(self).view().value[old(self).view().root[b.spec_ena()]] is Unbound) ==> r is Ok,
            r is Ok ==> final(self).view().root[a.spec_ena()] == final(self).view().root[b.spec_ena()],
    { unimplemented!() }
    #[verifier::external_body]
    pub fn unify_var_value<K1: IntoEna<I>>(&mut self, a: K1, v: InferenceValue<I>) -> (r: Result<(), ()>)
        ensures r is Ok, final(self).view().root == old(self).view().root,
                final(self).view().value == old(self).view().value.insert(old(self).view().root[a.spec_ena()], v)
    { unimplemented!() }
}
#[verifier::reject_recursive_types(I)]
pub struct InferenceTable<I: Interner> { pub unify: EnaTable<I> }
impl<I: Interner> InferenceTable<I> {
    /// a fresh variable: its own class, unbound in the given universe, everything else untouched
    #[verifier::external_body]
    pub fn new_variable(&mut self, ui: UniverseIndex) -> (r: EnaVariable<I>)
        ensures !old(self).unify.view().root.contains_key(r),
                final(self).unify.view().root == old(self).unify.view().root.insert(r, r),
                final(self).unify.view().value == old(self).unify.view().value.insert(r, InferenceValue::<I>::Unbound(ui)),
    { unimplemented!() }
}

pub uninterp spec fn outlives_both_ways<I: Interner>(env: Environment<I>, a: Lifetime<I>, b: Lifetime<I>) -> Seq<InEnvironment<Goal<I>>>;
impl<'t, I: Interner> Unifier<'t, I> {
    pub closed spec fn goal_seq(self) -> Seq<InEnvironment<Goal<I>>> { self.goals@ }
    pub closed spec fn env(self) -> Environment<I> { *self.environment }
    pub closed spec fn tview(self) -> TableView<I> { (*self.table).unify.view() }
    /// proved by unit V9 (for Invariant: both `a: b` and `b: a`)
    #[verifier::external_body]
    fn push_lifetime_outlives_goals(&mut self, variance: Variance, a: Lifetime<I>, b: Lifetime<I>)
        ensures final(self).tview() == old(self).tview(), final(self).env() == old(self).env(),
                variance is Invariant ==> final(self).goal_seq() == old(self).goal_seq() + outlives_both_ways(old(self).env(), a, b),
    { unimplemented!() }
}

impl<'u, 't, I: Interner> OccursCheck<'u, 't, I> {
    pub closed spec fn v_var(self) -> EnaVariable<I> { self.var }
    pub closed spec fn v_universe(self) -> UniverseIndex { self.universe_index }
    pub closed spec fn tview(self) -> TableView<I> { (*self.unifier).tview() }
    pub closed spec fn goal_seq(self) -> Seq<InEnvironment<Goal<I>>> { (*self.unifier).goal_seq() }
    pub closed spec fn env(self) -> Environment<I> { (*self.unifier).env() }
    pub closed spec fn unifier_ref(self) -> &'u mut Unifier<'t, I> { self.unifier }
//@FN file=chalk-solve/src/infer/unify.rs within="^impl<'u, 't, I: Interner> OccursCheck<'u, 't, I>$" fn=new contract=oc_new path=OccursCheck::new
}
//@CONTRACT oc_new
    ensures r.v_var() == var, r.v_universe() == universe_index,
            // the check works on the caller's unifier: same state now, and what it does to it is what the caller sees afterwards
            *r.unifier_ref() == *old(unifier), *final(unifier) == *final(r.unifier_ref()),
//@END

impl<I: Interner> InferenceValue<I> {
//@FN file=chalk-solve/src/infer/var.rs within="^impl<I: Interner> InferenceValue<I>$" fn=from_ty contract=from_ty path=InferenceValue::from_ty
//@FN file=chalk-solve/src/infer/var.rs within="^impl<I: Interner> InferenceValue<I>$" fn=from_const contract=from_const path=InferenceValue::from_const
}
//@CONTRACT from_ty
    ensures r == InferenceValue::<I>::Bound(arg_of_ty(ty)),
//@END
//@CONTRACT from_const
    ensures r == InferenceValue::<I>::Bound(arg_of_const(constant)),
//@END

impl<I: Interner> InferenceTable<I> {
//@FN file=chalk-solve/src/infer.rs within="^impl<I: Interner> InferenceTable<I>$" fn=universe_of_unbound_var contract=universe_of path=InferenceTable::universe_of_unbound_var
}
//@CONTRACT universe_of
    // "Panics if the variable is bound."
    requires old(self).unify.view().value[old(self).unify.view().root[var]] is Unbound,
    ensures final(self).unify.view() == old(self).unify.view(),
            InferenceValue::<I>::Unbound(r) == old(self).unify.view().value[old(self).unify.view().root[var]],
//@END

impl<'t, I: Interner> Unifier<'t, I> {
    #[verifier::external_body]
    fn generalize_ty(&mut self, ty: &Ty<I>, universe_index: UniverseIndex, variance: Variance) -> (r: Ty<I>)
        ensures
            (r, final(self).tview()) == spec_generalize_ty(*ty, universe_index, variance, old(self).tview()),
            final(self).goal_seq() == old(self).goal_seq(), final(self).env() == old(self).env(),
    { unimplemented!() }
    #[verifier::external_body]
    fn relate_ty_ty(&mut self, variance: Variance, a: &Ty<I>, b: &Ty<I>) -> (r: Fallible<()>)
        ensures
            final(self).env() == old(self).env(),
            (r is Ok, final(self).goal_seq(), final(self).tview())
                == spec_relate_ty_ty(old(self).goal_seq(), old(self).tview(), old(self).env(), variance, *a, *b),
    { unimplemented!() }
//@FN file=chalk-solve/src/infer/unify.rs within="^impl<'t, I: Interner> Unifier<'t, I>$" fn=relate_var_ty contract=relate_var_ty path=Unifier::relate_var_ty
//@FN file=chalk-solve/src/infer/unify.rs within="^impl<'t, I: Interner> Unifier<'t, I>$" fn=unify_var_var contract=unify_var_var path=Unifier::unify_var_var
//@FN file=chalk-solve/src/infer/unify.rs within="^impl<'t, I: Interner> Unifier<'t, I>$" fn=unify_general_var_specific_ty contract=unify_general path=Unifier::unify_general_var_specific_ty
//@FN file=chalk-solve/src/infer/unify.rs within="^impl<'t, I: Interner> Unifier<'t, I>$" fn=unify_var_const contract=unify_var_const path=Unifier::unify_var_const
}
//@CONTRACT relate_var_ty
    requires
        // the unknown is still unbound (call sites in relate_ty_ty, after shallow normalization)
        old(self).tview().value[old(self).tview().root[ena_of::<I>(var)]] is Unbound,
    ensures
        ({
            let v = ena_of::<I>(var);
            let ui = old(self).tview().value[old(self).tview().root[v]]->Unbound_0;
            let kinds_fit = var_kind is General || (var_kind is Integer && ty.spec_is_integer()) || (var_kind is Float && ty.spec_is_float());
            // THE occurs check, for this unknown and its universe, on the state at entry
            let checked = spec_check_ty(*ty, v, ui, old(self).tview(), old(self).goal_seq(), old(self).env());
            // an integer / float unknown only takes an integer / float type
            &&& !kinds_fit ==> r is Err && final(self).tview() == old(self).tview() && final(self).goal_seq() == old(self).goal_seq()
            // a failed check binds nothing
            &&& kinds_fit && checked.0 is Err ==> r is Err && final(self).tview() == checked.1 && final(self).goal_seq() == checked.2
            // on success the unknown's class is bound to the generalization of the CHECKED type, which is then related to
            // the checked type at the same variance
            &&& kinds_fit && checked.0 is Ok ==> {
                let t1 = checked.0->Ok_0;
                let gen = spec_generalize_ty(t1, ui, variance, checked.1);
                let bound = TableView { root: gen.1.root, value: gen.1.value.insert(gen.1.root[v], InferenceValue::<I>::Bound(arg_of_ty(gen.0))) };
                (r is Ok, final(self).goal_seq(), final(self).tview())
                    == spec_relate_ty_ty(checked.2, bound, old(self).env(), variance, gen.0, t1)
            }
        }),
//@END
//@CONTRACT unify_var_var
    requires
        // "unification of two unbound variables cannot fail" (the code's `expect`)
        old(self).tview().value[old(self).tview().root[ena_of::<I>(a)]] is Unbound,
        old(self).tview().value[old(self).tview().root[ena_of::<I>(b)]] is Unbound,
    ensures
        r is Ok,
        // afterwards the two unknowns are one class, and no other class changed
        final(self).tview().root[ena_of::<I>(a)] == final(self).tview().root[ena_of::<I>(b)],
        final(self).goal_seq() == old(self).goal_seq(),
//@END
//@CONTRACT unify_general
    ensures
        r is Ok,
        final(self).tview().root == old(self).tview().root,
        final(self).tview().value == old(self).tview().value.insert(old(self).tview().root[ena_of::<I>(general_var)], InferenceValue::<I>::Bound(arg_of_ty(specific_ty))),
        final(self).goal_seq() == old(self).goal_seq(),
//@END
//@CONTRACT unify_var_const
    requires
        // the unknown is still unbound (call sites: `relate_const_const` after shallow normalization)
        old(self).tview().value[old(self).tview().root[ena_of::<I>(var)]] is Unbound,
    ensures
        ({
            let v = ena_of::<I>(var);
            let ui = old(self).tview().value[old(self).tview().root[v]]->Unbound_0;
            // C14: THE occurs check is run on the constant, for this unknown and ITS universe, on the current state ...
            let checked = spec_check_const(*c, v, ui, old(self).tview(), old(self).goal_seq(), old(self).env());
            // ... a failed check binds nothing,
            &&& checked.0 is Err ==> r is Err && final(self).tview() == checked.1 && final(self).goal_seq() == checked.2
            // ... and on success the unknown's class is bound to the CHECKED constant (not the original one)
            &&& checked.0 matches Ok(c1) ==> r is Ok
                    && final(self).tview().root == checked.1.root
                    && final(self).tview().value == checked.1.value.insert(checked.1.root[v], InferenceValue::<I>::Bound(arg_of_const(c1)))
                    && final(self).goal_seq() == checked.2
        }),
//@END

// ------------------------------------------------------------- real functions
pub trait FallibleTypeFolder<I: Interner> {
    fn interner(&self) -> I;
    fn try_fold_free_placeholder_ty(&mut self, universe: PlaceholderIndex, _outer_binder: DebruijnIndex) -> Fallible<Ty<I>>;
    fn try_fold_free_placeholder_const(&mut self, ty: Ty<I>, universe: PlaceholderIndex, _outer_binder: DebruijnIndex) -> Fallible<Const<I>>;
    fn try_fold_free_placeholder_lifetime(&mut self, ui: PlaceholderIndex, _outer_binder: DebruijnIndex) -> Fallible<Lifetime<I>>;
    fn try_fold_inference_ty(&mut self, var: InferenceVar, kind: TyVariableKind, _outer_binder: DebruijnIndex) -> Fallible<Ty<I>>;
    fn try_fold_inference_const(&mut self, ty: Ty<I>, var: InferenceVar, _outer_binder: DebruijnIndex) -> Fallible<Const<I>>;
    fn try_fold_inference_lifetime(&mut self, var: InferenceVar, outer_binder: DebruijnIndex) -> Fallible<Lifetime<I>>;
}

impl<'i, I: Interner> FallibleTypeFolder<I> for OccursCheck<'_, 'i, I> {
//@FN file=chalk-solve/src/infer/unify.rs within="^impl<'i, I: Interner> FallibleTypeFolder<I> for OccursCheck<'_, 'i, I>$" fn=interner contract=interner path=OccursCheck::interner
//@FN file=chalk-solve/src/infer/unify.rs within="^impl<'i, I: Interner> FallibleTypeFolder<I> for OccursCheck<'_, 'i, I>$" fn=try_fold_free_placeholder_ty contract=ph_ty path=OccursCheck::try_fold_free_placeholder_ty
//@FN file=chalk-solve/src/infer/unify.rs within="^impl<'i, I: Interner> FallibleTypeFolder<I> for OccursCheck<'_, 'i, I>$" fn=try_fold_free_placeholder_const contract=ph_const path=OccursCheck::try_fold_free_placeholder_const
//@FN file=chalk-solve/src/infer/unify.rs within="^impl<'i, I: Interner> FallibleTypeFolder<I> for OccursCheck<'_, 'i, I>$" fn=try_fold_free_placeholder_lifetime contract=ph_lifetime path=OccursCheck::try_fold_free_placeholder_lifetime
//@FN file=chalk-solve/src/infer/unify.rs within="^impl<'i, I: Interner> FallibleTypeFolder<I> for OccursCheck<'_, 'i, I>$" fn=try_fold_inference_ty contract=inf_ty path=OccursCheck::try_fold_inference_ty
//@FN file=chalk-solve/src/infer/unify.rs within="^impl<'i, I: Interner> FallibleTypeFolder<I> for OccursCheck<'_, 'i, I>$" fn=try_fold_inference_const contract=inf_const path=OccursCheck::try_fold_inference_const
//@FN file=chalk-solve/src/infer/unify.rs within="^impl<'i, I: Interner> FallibleTypeFolder<I> for OccursCheck<'_, 'i, I>$" fn=try_fold_inference_lifetime contract=inf_lifetime path=OccursCheck::try_fold_inference_lifetime
}

//@CONTRACT interner
//@END
//@CONTRACT ph_ty
    ensures
        // a universally quantified name may appear in ?X's value iff ?X's universe can see it
        (r is Err) == (old(self).v_universe().counter < universe.ui.counter),
        r matches Ok(t) ==> t == ty_of_placeholder::<I>(universe),
        final(self).tview() == old(self).tview(), final(self).goal_seq() == old(self).goal_seq(),
//@END
//@CONTRACT ph_const
    ensures
        (r is Err) == (old(self).v_universe().counter < universe.ui.counter),
        r matches Ok(c) ==> c == const_of_placeholder::<I>(universe, ty),
        final(self).tview() == old(self).tview(), final(self).goal_seq() == old(self).goal_seq(),
//@END
//@CONTRACT ph_lifetime
    ensures
        r is Ok,
        // visible: kept as it is, nothing recorded
        !(old(self).v_universe().counter < ui.ui.counter) ==> r == Ok::<Lifetime<I>, NoSolution>(lifetime_of_placeholder::<I>(ui))
            && final(self).tview() == old(self).tview() && final(self).goal_seq() == old(self).goal_seq(),
        // invisible: a FRESH lifetime variable of ?X's own universe stands in, required to equal the placeholder
        (old(self).v_universe().counter < ui.ui.counter) ==> {
            let x = var_of_lifetime(r->Ok_0);
            &&& !old(self).tview().root.contains_key(x)
            &&& r == Ok::<Lifetime<I>, NoSolution>(lifetime_of_var(x))
            &&& final(self).tview().value == old(self).tview().value.insert(x, InferenceValue::<I>::Unbound(old(self).v_universe()))
            &&& final(self).goal_seq() == old(self).goal_seq() + outlives_both_ways(old(self).env(), lifetime_of_var(x), lifetime_of_placeholder::<I>(ui))
        },
//@END
//@CONTRACT inf_ty
    ensures
        match old(self).tview().value[old(self).tview().root[ena_of::<I>(var)]] {
            InferenceValue::Unbound(ui) => {
                let v = ena_of::<I>(var);
                let same_class = old(self).tview().root[v] == old(self).tview().root[old(self).v_var()];
                // THE OCCURS CHECK: ?X = ..?Y.. with ?Y in ?X's class has no (finite) solution
                &&& same_class ==> r is Err && final(self).tview() == old(self).tview()
                &&& !same_class ==> r == Ok::<Ty<I>, NoSolution>(ty_of_var(v, kind))
                // universe promotion: afterwards ?Y lives in a universe ?X can name
                &&& (!same_class && old(self).v_universe().counter < ui.counter) ==>
                        final(self).tview().value == old(self).tview().value.insert(old(self).tview().root[v], InferenceValue::<I>::Unbound(old(self).v_universe()))
                        && final(self).tview().root == old(self).tview().root
                &&& (!same_class && !(old(self).v_universe().counter < ui.counter)) ==> final(self).tview() == old(self).tview()
            },
            // bound: its value is checked by the same folder (havoc here)
            InferenceValue::Bound(_) => true,
        },
//@END

//@CONTRACT inf_const
    ensures
        match old(self).tview().value[old(self).tview().root[ena_of::<I>(var)]] {
            InferenceValue::Unbound(ui) => {
                let v = ena_of::<I>(var);
                let same_class = old(self).tview().root[v] == old(self).tview().root[old(self).v_var()];
                &&& same_class ==> r is Err && final(self).tview() == old(self).tview()
                &&& !same_class ==> r == Ok::<Const<I>, NoSolution>(const_of_var(v, ty))
                &&& (!same_class && old(self).v_universe().counter < ui.counter) ==>
                        final(self).tview().value == old(self).tview().value.insert(old(self).tview().root[v], InferenceValue::<I>::Unbound(old(self).v_universe()))
                        && final(self).tview().root == old(self).tview().root
                &&& (!same_class && !(old(self).v_universe().counter < ui.counter)) ==> final(self).tview() == old(self).tview()
            },
            InferenceValue::Bound(_) => true,
        },
//@END
//@CONTRACT inf_lifetime
    ensures
        match old(self).tview().value[old(self).tview().root[ena_of::<I>(var)]] {
            // an unknown lifetime never fails the check, but afterwards it lives in a universe ?X can name (C28:
            // a solution uses no universe the query cannot name)
            InferenceValue::Unbound(ui) => {
                let v = ena_of::<I>(var);
                &&& r == Ok::<Lifetime<I>, NoSolution>(lifetime_of_var(v))
                &&& (old(self).v_universe().counter < ui.counter) ==>
                        final(self).tview().value == old(self).tview().value.insert(old(self).tview().root[v], InferenceValue::<I>::Unbound(old(self).v_universe()))
                        && final(self).tview().root == old(self).tview().root
                &&& !(old(self).v_universe().counter < ui.counter) ==> final(self).tview() == old(self).tview()
            },
            InferenceValue::Bound(_) => true,
        },
//@END

} // verus!
fn main() {}
