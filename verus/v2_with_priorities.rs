// Unit V2 `with_priorities` — Verus.  C07: a high-priority (impl) normalization
// overrides the low-priority placeholder fallback exactly when both are for the
// same inputs; C13: the result does not depend on which argument comes first.
use vstd::prelude::*;
verus! {

//@INCLUDE common/solution_prelude.rs

#[verifier::external_body]
#[verifier::reject_recursive_types(I)]
pub struct DomainGoal<I: Interner> { _p: core::marker::PhantomData<I> }
#[verifier::external_body]
#[verifier::reject_recursive_types(I)]
pub struct GenericArg<I: Interner> { _p: core::marker::PhantomData<I> }
//@TYPE file=chalk-ir/src/lib.rs kind=enum name=ClausePriority attrs="#[derive(Clone, Copy)]"

/// the "inputs" of the goal under a candidate solution (abstract; `calculate_inputs`
/// applies the solution's substitution to the goal through the generic folder)
pub uninterp spec fn spec_inputs<I: Interner>(g: DomainGoal<I>, s: Solution<I>) -> Seq<GenericArg<I>>;

/// `Vec<GenericArg> == Vec<GenericArg>`: element-wise equality of the abstract views
#[verifier::external_body]
pub fn calculate_inputs<I: Interner>(interner: I, domain_goal: &DomainGoal<I>, solution: &Solution<I>) -> (r: InputList<I>)
    ensures r.view() == spec_inputs(*domain_goal, *solution),
{ unimplemented!() }

// `Vec<GenericArg<I>>` with its derived equality: vstd has no specification for
// `Vec == Vec`; the comparison is modelled by a local list type whose `==` is
// equality of the abstract sequences (assumption listed in the catalogue).
#[verifier::external_body]
#[verifier::reject_recursive_types(I)]
pub struct InputList<I: Interner> { _p: core::marker::PhantomData<I> }
impl<I: Interner> InputList<I> { pub uninterp spec fn view(&self) -> Seq<GenericArg<I>>; }
impl<I: Interner> vstd::std_specs::cmp::PartialEqSpecImpl for InputList<I> {
    open spec fn obeys_eq_spec() -> bool { true }
    open spec fn eq_spec(&self, other: &Self) -> bool { self.view() == other.view() }
}
impl<I: Interner> PartialEq for InputList<I> {
    #[verifier::external_body]
    fn eq(&self, other: &Self) -> bool { unimplemented!() }
}

impl<I: Interner> Solution<I> {
    /// proved by unit V1
    #[verifier::external_body]
    pub fn combine(self, other: Solution<I>, interner: I) -> (r: Solution<I>)
        ensures r == spec_combine(self, other)
    { unimplemented!() }
}

// ------------------------------------------------------- specification level
pub open spec fn spec_with_priorities<I: Interner>(g: DomainGoal<I>, a: Solution<I>, pa: ClausePriority, b: Solution<I>, pb: ClausePriority)
    -> (Solution<I>, ClausePriority)
{
    match (pa, pb) {
        (ClausePriority::High, ClausePriority::Low) =>
            if spec_inputs(g, a) == spec_inputs(g, b) { (a, ClausePriority::High) } else { (spec_combine(a, b), ClausePriority::High) },
        (ClausePriority::Low, ClausePriority::High) =>
            if spec_inputs(g, b) == spec_inputs(g, a) { (b, ClausePriority::High) } else { (spec_combine(b, a), ClausePriority::High) },
        _ => (spec_combine(a, b), pa),
    }
}

// ------------------------------------------------------------- real functions
//@FN file=chalk-recursive/src/combine.rs fn=with_priorities contract=with_priorities path=combine::with_priorities

//@CONTRACT with_priorities
    ensures
        r == spec_with_priorities(*domain_goal, a, prio_a, b, prio_b),
        // C07: the high-priority candidate wins unchanged when both candidates are for the same inputs
        (prio_a is High && prio_b is Low && spec_inputs(*domain_goal, a) == spec_inputs(*domain_goal, b)) ==> r.0 == a && r.1 is High,
        (prio_a is Low && prio_b is High && spec_inputs(*domain_goal, a) == spec_inputs(*domain_goal, b)) ==> r.0 == b && r.1 is High,
        // the resulting priority is High iff some candidate had High priority... (meet is taken by the caller) here: never lower than prio_a
        (prio_a is High) ==> r.1 is High,
//@END

// ---------------------------------------------------- lemmas over the contracts
/// C13: the combined *solution* is independent of the order of the two candidates
/// (assuming, as for `combine`, that two trivially-true solutions are equal).
pub proof fn lemma_with_priorities_symmetric<I: Interner>(g: DomainGoal<I>, a: Solution<I>, pa: ClausePriority, b: Solution<I>, pb: ClausePriority)
    requires trivial(a) && trivial(b) ==> a == b,
    ensures
        spec_with_priorities(g, a, pa, b, pb).0 == spec_with_priorities(g, b, pb, a, pa).0,
        pa != pb ==> spec_with_priorities(g, a, pa, b, pb).1 == spec_with_priorities(g, b, pb, a, pa).1,
{
    assert(agreed(guidance_of(a), guidance_of(b)) == agreed(guidance_of(b), guidance_of(a)));
}

} // verus!
fn main() {}
