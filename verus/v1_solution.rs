// Unit V1 `solution_combine` — Verus.  Everything between //@TYPE / //@FN
// directives and the end of the inserted item is text taken from /repo at check
// time; the rest of this file is specification (abstract types, callee
// contracts, lemmas).
use vstd::prelude::*;
verus! {

//@INCLUDE common/solution_prelude.rs

// ------------------------------------------------------------- real functions
impl<I: Interner> Solution<I> {
//@FN file=chalk-solve/src/solve.rs within="^impl<I: Interner> Solution<I>$" fn=combine contract=combine path=Solution::combine
//@FN file=chalk-solve/src/solve.rs within="^impl<I: Interner> Solution<I>$" fn=is_trivial_and_always_true contract=is_trivial path=Solution::is_trivial_and_always_true
//@FN file=chalk-solve/src/solve.rs within="^impl<I: Interner> Solution<I>$" fn=into_guidance contract=into_guidance path=Solution::into_guidance
//@FN file=chalk-solve/src/solve.rs within="^impl<I: Interner> Solution<I>$" fn=constrained_subst contract=constrained_subst path=Solution::constrained_subst
//@FN file=chalk-solve/src/solve.rs within="^impl<I: Interner> Solution<I>$" fn=definite_subst contract=definite_subst path=Solution::definite_subst
//@FN file=chalk-solve/src/solve.rs within="^impl<I: Interner> Solution<I>$" fn=is_unique contract=is_unique path=Solution::is_unique
//@FN file=chalk-solve/src/solve.rs within="^impl<I: Interner> Solution<I>$" fn=is_ambig contract=is_ambig path=Solution::is_ambig
}

//@CONTRACT combine
    ensures
        r == spec_combine(self, other),
        claims_no_more(self, other, r),
//@END
//@CONTRACT is_trivial
    ensures r == trivial(*self),
//@END
//@CONTRACT into_guidance
    ensures r == guidance_of(self),
//@END
//@CONTRACT constrained_subst
    ensures
        match *self {
            Solution::Unique(c) => r == Some(c),
            Solution::Ambig(Guidance::Definite(c)) | Solution::Ambig(Guidance::Suggested(c)) =>
                r == Some(Canonical { value: ConstrainedSubst { subst: c.value, constraints: spec_empty_constraints::<I>() }, binders: c.binders }),
            Solution::Ambig(Guidance::Unknown) => r is None,
        },
//@END
//@CONTRACT definite_subst
    ensures
        match *self {
            Solution::Unique(c) => r == Some(c),
            Solution::Ambig(Guidance::Definite(c)) =>
                r == Some(Canonical { value: ConstrainedSubst { subst: c.value, constraints: spec_empty_constraints::<I>() }, binders: c.binders }),
            _ => r is None,
        },
//@END
//@CONTRACT is_unique
    ensures r == (*self is Unique),
//@END
//@CONTRACT is_ambig
    ensures r == (*self is Ambig),
//@END

// ---------------------------------------------------- lemmas over the contract

/// C13 / C17: `combine` does not depend on argument order.  Precondition: two
/// trivially-true solutions of one query are equal (both are the identity
/// substitution over the query's own binders) — assumption on callers.
pub proof fn lemma_combine_commutes<I: Interner>(a: Solution<I>, b: Solution<I>)
    requires trivial(a) && trivial(b) ==> a == b,
    ensures spec_combine(a, b) == spec_combine(b, a),
{
    assert(agreed(guidance_of(a), guidance_of(b)) == agreed(guidance_of(b), guidance_of(a)));
}

/// C17: the functional specification itself never claims more than either candidate.
pub proof fn lemma_spec_claims_no_more<I: Interner>(a: Solution<I>, b: Solution<I>)
    ensures claims_no_more(a, b, spec_combine(a, b)),
{
}

/// C01 link: combining never *manufactures* a `Unique`: a `Unique` result is one of the inputs.
pub proof fn lemma_combine_unique_is_input<I: Interner>(a: Solution<I>, b: Solution<I>)
    ensures spec_combine(a, b) is Unique ==> (spec_combine(a, b) == a || spec_combine(a, b) == b),
{
}

/// idempotence and absorption of a repeated candidate
pub proof fn lemma_combine_idempotent<I: Interner>(a: Solution<I>)
    ensures spec_combine(a, a) == a,
{
}

} // verus!
fn main() {}
