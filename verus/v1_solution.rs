// Unit V1 `solution_combine` — Verus.  Everything between //@TYPE / //@FN
// directives and the end of the inserted item is text taken from /repo at check
// time; the rest of this file is specification (abstract types, callee
// contracts, lemmas).
use vstd::prelude::*;
verus! {

// ------------------------------------------------------------------ prelude
pub trait Interner: Sized + Copy {}
pub trait HasInterner { type Interner: Interner; }

#[verifier::external_body]
#[verifier::reject_recursive_types(I)]
pub struct Substitution<I: Interner> { _p: core::marker::PhantomData<I> }
#[verifier::external_body]
#[verifier::reject_recursive_types(I)]
pub struct Constraints<I: Interner> { _p: core::marker::PhantomData<I> }
#[verifier::external_body]
#[verifier::reject_recursive_types(I)]
pub struct CanonicalVarKinds<I: Interner> { _p: core::marker::PhantomData<I> }

impl<I: Interner> HasInterner for Substitution<I> { type Interner = I; }
impl<I: Interner> HasInterner for ConstrainedSubst<I> { type Interner = I; }

// abstract views of the two predicates `is_trivial_and_always_true` reads
pub uninterp spec fn spec_is_identity_subst<I: Interner>(s: Substitution<I>) -> bool;
pub uninterp spec fn spec_constraints_empty<I: Interner>(c: Constraints<I>) -> bool;

// callee contracts (assumed; chalk-ir, not verified by this unit)
impl<I: Interner> Substitution<I> {
    #[verifier::external_body]
    pub fn is_identity_subst(&self, interner: I) -> (r: bool)
        ensures r == spec_is_identity_subst(*self)
    { unimplemented!() }
}
impl<I: Interner> Constraints<I> {
    #[verifier::external_body]
    pub fn is_empty(&self, interner: I) -> (r: bool)
        ensures r == spec_constraints_empty(*self)
    { unimplemented!() }
    #[verifier::external_body]
    pub fn empty(interner: I) -> (r: Self)
        ensures spec_constraints_empty(r), r == spec_empty_constraints::<I>()
    { unimplemented!() }
}
pub uninterp spec fn spec_empty_constraints<I: Interner>() -> Constraints<I>;

// `#[derive(Clone, PartialEq)]` on the extracted types is dropped by the
// extractor (D1); its meaning is assumed to be: clone returns an equal value,
// `==` is structural equality of the abstract views.
//@CLONE_EQ generics="I: Interner" type="Substitution<I>"
//@CLONE_EQ generics="I: Interner" type="Constraints<I>"
//@CLONE_EQ generics="I: Interner" type="CanonicalVarKinds<I>"
//@CLONE_EQ generics="I: Interner" type="ConstrainedSubst<I>"
//@CLONE_EQ generics="I: Interner" type="Canonical<Substitution<I>>"
//@CLONE_EQ generics="I: Interner" type="Canonical<ConstrainedSubst<I>>"
//@CLONE_EQ generics="I: Interner" type="Guidance<I>"
//@CLONE_EQ generics="I: Interner" type="Solution<I>"

// ------------------------------------------- real type definitions (extracted)
//@TYPE file=chalk-ir/src/lib.rs kind=struct name=Canonical attrs="#[verifier::reject_recursive_types(T)]"
//@TYPE file=chalk-ir/src/lib.rs kind=struct name=ConstrainedSubst attrs="#[verifier::reject_recursive_types(I)]"
//@TYPE file=chalk-solve/src/solve.rs kind=enum name=Solution attrs="#[verifier::reject_recursive_types(I)]"
//@TYPE file=chalk-solve/src/solve.rs kind=enum name=Guidance attrs="#[verifier::reject_recursive_types(I)]"

// ------------------------------------------------------- specification level
pub open spec fn trivial<I: Interner>(s: Solution<I>) -> bool {
    match s {
        Solution::Unique(c) => spec_is_identity_subst(c.value.subst) && spec_constraints_empty(c.value.constraints),
        Solution::Ambig(_) => false,
    }
}

pub open spec fn guidance_of<I: Interner>(s: Solution<I>) -> Guidance<I> {
    match s {
        Solution::Unique(c) => Guidance::Definite(Canonical { value: c.value.subst, binders: c.binders }),
        Solution::Ambig(g) => g,
    }
}

/// What two candidates agree on (documentation of `combine`: "always downgrade
/// to Ambig", keeping only guidance both candidates give).
pub open spec fn agreed<I: Interner>(g1: Guidance<I>, g2: Guidance<I>) -> Guidance<I> {
    match (g1, g2) {
        (Guidance::Definite(s1), Guidance::Definite(s2)) => if s1 == s2 { Guidance::Definite(s1) } else { Guidance::Unknown },
        (Guidance::Suggested(s1), Guidance::Suggested(s2)) => if s1 == s2 { Guidance::Suggested(s1) } else { Guidance::Unknown },
        _ => Guidance::Unknown,
    }
}

pub open spec fn spec_combine<I: Interner>(a: Solution<I>, b: Solution<I>) -> Solution<I> {
    if a == b { a }
    else if trivial(a) { a }
    else if trivial(b) { b }
    else { Solution::Ambig(agreed(guidance_of(a), guidance_of(b))) }
}

/// "never claims more than either candidate" (C17), stated on the result only.
pub open spec fn claims_no_more<I: Interner>(a: Solution<I>, b: Solution<I>, r: Solution<I>) -> bool {
    &&& (a == b ==> r == a)
    &&& (r is Unique ==> (r == a || r == b) && (a == b || trivial(r)))
    &&& (forall|s: Canonical<Substitution<I>>| r == Solution::Ambig(Guidance::Definite(s)) ==>
            guidance_of(a) == Guidance::Definite(s) && guidance_of(b) == Guidance::Definite(s))
    &&& (forall|s: Canonical<Substitution<I>>| r == Solution::Ambig(Guidance::Suggested(s)) ==>
            guidance_of(a) == Guidance::Suggested(s) && guidance_of(b) == Guidance::Suggested(s))
}

// ------------------------------------------------------------- real functions
impl<I: Interner> Solution<I> {
//@FN file=chalk-solve/src/solve.rs within="^impl<I: Interner> Solution<I>$" fn=combine contract=combine path=Solution::combine
//@FN file=chalk-solve/src/solve.rs within="^impl<I: Interner> Solution<I>$" fn=is_trivial_and_always_true contract=is_trivial path=Solution::is_trivial_and_always_true
//@FN file=chalk-solve/src/solve.rs within="^impl<I: Interner> Solution<I>$" fn=into_guidance contract=into_guidance path=Solution::into_guidance
//@FN file=chalk-solve/src/solve.rs within="^impl<I: Interner> Solution<I>$" fn=constrained_subst contract=constrained_subst path=Solution::constrained_subst
//@FN file=chalk-solve/src/solve.rs within="^impl<I: Interner> Solution<I>$" fn=definite_subst contract=definite_subst path=Solution::definite_subst
//@FN file=chalk-solve/src/solve.rs within="^impl<I: Interner> Solution<I>$" fn=is_unique contract=is_unique path=Solution::is_unique
//@FN file=chalk-solve/src/solve.rs within="^impl<I: Interner> Solution<I>$" fn=is_ambig contract=is_ambig path=Solution::is_ambig
}

//@CONTRACT combine
    ensures
        r == spec_combine(self, other),
        claims_no_more(self, other, r),
//@END
//@CONTRACT is_trivial
    ensures r == trivial(*self),
//@END
//@CONTRACT into_guidance
    ensures r == guidance_of(self),
//@END
//@CONTRACT constrained_subst
    ensures
        match *self {
            Solution::Unique(c) => r == Some(c),
            Solution::Ambig(Guidance::Definite(c)) | Solution::Ambig(Guidance::Suggested(c)) =>
                r == Some(Canonical { value: ConstrainedSubst { subst: c.value, constraints: spec_empty_constraints::<I>() }, binders: c.binders }),
            Solution::Ambig(Guidance::Unknown) => r is None,
        },
//@END
//@CONTRACT definite_subst
    ensures
        match *self {
            Solution::Unique(c) => r == Some(c),
            Solution::Ambig(Guidance::Definite(c)) =>
                r == Some(Canonical { value: ConstrainedSubst { subst: c.value, constraints: spec_empty_constraints::<I>() }, binders: c.binders }),
            _ => r is None,
        },
//@END
//@CONTRACT is_unique
    ensures r == (*self is Unique),
//@END
//@CONTRACT is_ambig
    ensures r == (*self is Ambig),
//@END

// ---------------------------------------------------- lemmas over the contract

/// C13 / C17: `combine` does not depend on argument order.  Precondition: two
/// trivially-true solutions of one query are equal (both are the identity
/// substitution over the query's own binders) — assumption on callers.
pub proof fn lemma_combine_commutes<I: Interner>(a: Solution<I>, b: Solution<I>)
    requires trivial(a) && trivial(b) ==> a == b,
    ensures spec_combine(a, b) == spec_combine(b, a),
{
    assert(agreed(guidance_of(a), guidance_of(b)) == agreed(guidance_of(b), guidance_of(a)));
}

/// C17: the functional specification itself never claims more than either candidate.
pub proof fn lemma_spec_claims_no_more<I: Interner>(a: Solution<I>, b: Solution<I>)
    ensures claims_no_more(a, b, spec_combine(a, b)),
{
}

/// C01 link: combining never *manufactures* a `Unique`: a `Unique` result is one of the inputs.
pub proof fn lemma_combine_unique_is_input<I: Interner>(a: Solution<I>, b: Solution<I>)
    ensures spec_combine(a, b) is Unique ==> (spec_combine(a, b) == a || spec_combine(a, b) == b),
{
}

/// idempotence and absorption of a repeated candidate
pub proof fn lemma_combine_idempotent<I: Interner>(a: Solution<I>)
    ensures spec_combine(a, a) == a,
{
}

} // verus!
fn main() {}
