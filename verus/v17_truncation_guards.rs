// Unit V17 `truncation_guards` — Verus.  C09: the two guards that bound the work of the
// solvers by refusing goals that have grown beyond the configured size:
//   SLG:       Forest::abstract_positive_literal  — an oversize subgoal is NOT tabled (None => the strand flounders)
//   recursive: Fulfill::push_obligation           — an oversize obligation is NOT queued; the result is marked "cannot prove"
// ("oversize" = truncate::needs_truncation, abstract here).
use vstd::prelude::*;
verus! {

pub trait Interner: Sized + Copy { type DefId: Copy; }
pub trait HasInterner { type Interner: Interner; }

macro_rules! abstract_ty {
    ($($n:ident),*) => { verus! { $(
        #[verifier::external_body]
        #[verifier::reject_recursive_types(I)]
        pub struct $n<I: Interner> { _p: core::marker::PhantomData<I> }
    )* } }
}
abstract_ty!(Goal, Environment, InferenceTable, Substitution, Constraint, CanonicalVarKinds);
#[verifier::external_body]
#[verifier::reject_recursive_types(I)]
pub struct SlgContextOps<'a, I: Interner> { _p: core::marker::PhantomData<&'a I> }
#[verifier::external_body]
#[verifier::reject_recursive_types(T)]
pub struct FxHashSet<T> { _p: core::marker::PhantomData<T> }
#[verifier::external_body] pub struct UniverseMap { _p: () }
impl<I: Interner> HasInterner for Goal<I> { type Interner = I; }
impl<I: Interner> HasInterner for Constraint<I> { type Interner = I; }
impl<G: HasInterner> HasInterner for InEnvironment<G> { type Interner = G::Interner; }

// real definitions (extracted)
//@TYPE file=chalk-ir/src/lib.rs kind=struct name=InEnvironment attrs="#[verifier::reject_recursive_types(G)]"
//@TYPE file=chalk-ir/src/lib.rs kind=struct name=Canonical attrs="#[verifier::reject_recursive_types(T)]"
//@TYPE file=chalk-ir/src/lib.rs kind=struct name=UCanonical attrs="#[verifier::reject_recursive_types(T)]"
//@TYPE file=chalk-solve/src/infer/ucanonicalize.rs kind=struct name=UCanonicalized attrs="#[verifier::reject_recursive_types(T)]"
//@TYPE file=chalk-solve/src/infer/canonicalize.rs kind=struct name=Canonicalized attrs="#[verifier::reject_recursive_types(T)]"
//@TYPE file=chalk-recursive/src/fulfill.rs kind=enum name=Obligation attrs="#[verifier::reject_recursive_types(I)]"
//@TYPE file=chalk-recursive/src/fulfill.rs kind=struct name=Fulfill attrs="#[verifier::reject_recursive_types(I)] #[verifier::reject_recursive_types(Solver)]"
#[verifier::external_body]
#[verifier::reject_recursive_types(I)]
pub struct GenericArg<I: Interner> { _p: core::marker::PhantomData<I> }
pub type ParameterEnaVariable<I> = GenericArg<I>;

// ---- abstract views and callee contracts (assumed)
/// the goal has grown beyond `max_size` (chalk-solve `truncate::needs_truncation`: a TypeVisitor; not verified)
pub uninterp spec fn too_big<I: Interner>(goal: InEnvironment<Goal<I>>, max_size: usize) -> bool;
pub mod truncate {
    use super::*;
    #[verifier::external_body]
    pub fn needs_truncation<I: Interner>(interner: I, infer: &mut InferenceTable<I>, max_size: usize, value: &InEnvironment<Goal<I>>) -> (r: bool)
        ensures r == too_big(*value, max_size)
    { unimplemented!() }
}
pub trait RustIrDatabase<I: Interner> { fn interner(&self) -> I; }
impl<'a, I: Interner> SlgContextOps<'a, I> {
    pub uninterp spec fn spec_max_size(&self) -> usize;
    #[verifier::external_body]
    pub fn max_size(&self) -> (r: usize) ensures r == self.spec_max_size() { unimplemented!() }
    #[verifier::external_body]
    pub fn program(&self) -> &dyn RustIrDatabase<I> { unimplemented!() }
}
impl<I: Interner> Goal<I> {
    /// (not used by the pinned code; declared so that a guard that consults it is still decided)
    #[verifier::external_body]
    pub fn is_coinductive(&self, db: &dyn RustIrDatabase<I>) -> bool { unimplemented!() }
}
impl<I: Interner> InferenceTable<I> {
    #[verifier::external_body]
    pub fn canonicalize<T: HasInterner<Interner = I>>(&mut self, interner: I, value: T) -> Canonicalized<T> { unimplemented!() }
    #[verifier::external_body]
    pub fn u_canonicalize<T: HasInterner<Interner = I>>(interner: I, value0: &Canonical<T>) -> UCanonicalized<T> { unimplemented!() }
}
pub trait SolveDatabase<I: Interner>: Sized {
    spec fn spec_max_size(&self) -> usize;
    fn interner(&self) -> I;
    fn db(&self) -> &dyn RustIrDatabase<I>;
    fn max_size(&self) -> (r: usize) ensures r == self.spec_max_size();
}

spec fn obligation_goal<I: Interner>(o: Obligation<I>) -> InEnvironment<Goal<I>> {
    match o { Obligation::Prove(g) => g, Obligation::Refute(g) => g }
}

// ------------------------------------------------------------- real functions
#[verifier::external_body]
#[verifier::reject_recursive_types(I)]
pub struct Forest<I: Interner> { _p: core::marker::PhantomData<I> }
impl<I: Interner> Forest<I> {
//@FN file=chalk-engine/src/logic.rs within="^impl<I: Interner> Forest<I>$" fn=abstract_positive_literal contract=abstract_positive path=Forest::abstract_positive_literal
}

impl<'s, I: Interner, Solver: SolveDatabase<I>> Fulfill<'s, I, Solver> {
    pub closed spec fn v_cannot_prove(self) -> bool { self.cannot_prove }
    closed spec fn v_obligations(self) -> Seq<Obligation<I>> { self.obligations@ }
    pub closed spec fn v_max_size(self) -> usize { (*self.solver).spec_max_size() }
//@FN file=chalk-recursive/src/fulfill.rs within="^impl<'s, I: Interner, Solver: SolveDatabase<I>> Fulfill<'s, I, Solver>$" fn=push_obligation contract=push_obligation path=Fulfill::push_obligation
}

//@CONTRACT abstract_positive
    ensures
        // C09: a subgoal that is too big is never handed on for tabling
        too_big(subgoal, context.spec_max_size()) ==> r is None,
        !too_big(subgoal, context.spec_max_size()) ==> r is Some,
//@END
//@CONTRACT push_obligation
    ensures
        final(self).v_max_size() == old(self).v_max_size(),
        // C09: an obligation that is too big is never queued; the solve is marked "cannot prove" instead
        too_big(obligation_goal(obligation), old(self).v_max_size()) ==>
            final(self).v_obligations() == old(self).v_obligations() && final(self).v_cannot_prove(),
        !too_big(obligation_goal(obligation), old(self).v_max_size()) ==>
            final(self).v_obligations() == old(self).v_obligations().push(obligation) && final(self).v_cannot_prove() == old(self).v_cannot_prove(),
//@END

} // verus!
fn main() {}
