// Unit V31 `inverter_callbacks` — Verus.  C01 / C16 (`invert`: "placeholders to existentials"): a value that has
// been inverted contains NO universally quantified name any more - of any kind.  The three callbacks of `Inverter`
// (chalk-solve/src/infer/invert.rs) that do the replacement use the hash-map entry API with a closure that captures
// `&mut` (outside Verus), so their bodies are not verified; what IS decided here is the case that matters when one
// of them is missing: an impl that does not override the callback of a kind inherits the trait's default, which
// keeps the placeholder (unit V16) - and "the result is not that placeholder" is then refuted.  This is how the
// missing `Inverter::fold_free_placeholder_const` of the pinned tree shows up (genuine defect:
// `forall<const N> { not { S<N>: Trait } }` answered Unique; repaired by /repo commit e224150, DESIGN section 6e).
use vstd::prelude::*;
verus! {

pub trait Interner: Sized + Copy { type DefId: Copy; }
macro_rules! abstract_ty {
    ($($n:ident),*) => { verus! { $(
        #[verifier::external_body]
        #[verifier::reject_recursive_types(I)]
        pub struct $n<I: Interner> { _p: core::marker::PhantomData<I> }
    )* } }
}
abstract_ty!(Ty, Lifetime, Const, InferenceTable, EnaVariable);
#[derive(Clone, Copy)]
pub struct DebruijnIndex { pub depth: u32 }
#[verifier::external_body]
#[verifier::reject_recursive_types(K)]
#[verifier::reject_recursive_types(V)]
pub struct FxHashMap<K, V> { _p: core::marker::PhantomData<(K, V)> }

// real definitions (extracted)
//@TYPE file=chalk-ir/src/lib.rs kind=struct name=UniverseIndex attrs="#[derive(Clone, Copy)]"
//@TYPE file=chalk-ir/src/lib.rs kind=struct name=PlaceholderIndex attrs="#[derive(Clone, Copy)]"
//@TYPE file=chalk-solve/src/infer/invert.rs kind=struct name=Inverter attrs="#[verifier::reject_recursive_types(I)]"

pub uninterp spec fn ty_of_placeholder<I: Interner>(p: PlaceholderIndex) -> Ty<I>;
pub uninterp spec fn lifetime_of_placeholder<I: Interner>(p: PlaceholderIndex) -> Lifetime<I>;
pub uninterp spec fn const_of_placeholder<I: Interner>(p: PlaceholderIndex, ty: Ty<I>) -> Const<I>;
pub uninterp spec fn folded_ty<I: Interner>(t: Ty<I>, ob: DebruijnIndex) -> Ty<I>;

/// the trait's DEFAULT callbacks (chalk-ir/src/fold.rs; contract proved by unit V16): the placeholder is kept as it is
#[verifier::external_body]
pub fn default_fold_free_placeholder_ty<I: Interner>(universe: PlaceholderIndex, outer_binder: DebruijnIndex) -> (r: Ty<I>)
    ensures r == ty_of_placeholder::<I>(universe)
{ unimplemented!() }
#[verifier::external_body]
pub fn default_fold_free_placeholder_lifetime<I: Interner>(universe: PlaceholderIndex, outer_binder: DebruijnIndex) -> (r: Lifetime<I>)
    ensures r == lifetime_of_placeholder::<I>(universe)
{ unimplemented!() }
#[verifier::external_body]
pub fn default_fold_free_placeholder_const<I: Interner>(ty: Ty<I>, universe: PlaceholderIndex, outer_binder: DebruijnIndex) -> (r: Const<I>)
    ensures r == const_of_placeholder::<I>(universe, folded_ty(ty, outer_binder))
{ unimplemented!() }

pub trait TypeFolder<I: Interner>: Sized {
    fn interner(&self) -> I;
    fn forbid_free_vars(&self) -> bool;
    fn forbid_inference_vars(&self) -> bool;
    fn fold_free_placeholder_ty(&mut self, universe: PlaceholderIndex, outer_binder: DebruijnIndex) -> Ty<I>;
    fn fold_free_placeholder_lifetime(&mut self, universe: PlaceholderIndex, outer_binder: DebruijnIndex) -> Lifetime<I>;
    fn fold_free_placeholder_const(&mut self, ty: Ty<I>, universe: PlaceholderIndex, outer_binder: DebruijnIndex) -> Const<I>;
}

// ------------------------------------------------------------- real functions
impl<'i, I: Interner> TypeFolder<I> for Inverter<'i, I> {
//@FN file=chalk-solve/src/infer/invert.rs within="^impl<'i, I: Interner> TypeFolder<I> for Inverter<'i, I>$" fn=interner contract=nothing path=Inverter::interner
//@FN file=chalk-solve/src/infer/invert.rs within="^impl<'i, I: Interner> TypeFolder<I> for Inverter<'i, I>$" fn=forbid_free_vars contract=forbid path=Inverter::forbid_free_vars
//@FN file=chalk-solve/src/infer/invert.rs within="^impl<'i, I: Interner> TypeFolder<I> for Inverter<'i, I>$" fn=forbid_inference_vars contract=forbid path=Inverter::forbid_inference_vars
//@FN file=chalk-solve/src/infer/invert.rs within="^impl<'i, I: Interner> TypeFolder<I> for Inverter<'i, I>$" fn=fold_free_placeholder_ty contract=inv_ty path=Inverter::fold_free_placeholder_ty ifabsent=block:dflt_ty ifpresent=skip why="hash-map entry API with a closure capturing &mut"
//@FN file=chalk-solve/src/infer/invert.rs within="^impl<'i, I: Interner> TypeFolder<I> for Inverter<'i, I>$" fn=fold_free_placeholder_lifetime contract=inv_lt path=Inverter::fold_free_placeholder_lifetime ifabsent=block:dflt_lt ifpresent=skip why="hash-map entry API with a closure capturing &mut"
//@FN file=chalk-solve/src/infer/invert.rs within="^impl<'i, I: Interner> TypeFolder<I> for Inverter<'i, I>$" fn=fold_free_placeholder_const contract=inv_ct path=Inverter::fold_free_placeholder_const ifabsent=block:dflt_ct ifpresent=skip why="hash-map entry API with a closure capturing &mut"
    // (stand-ins for the three callbacks when they ARE overridden: bodies outside Verus, nothing assumed beyond their types)
    #[verifier::external_body] fn fold_free_placeholder_ty(&mut self, universe: PlaceholderIndex, outer_binder: DebruijnIndex) -> Ty<I> { unimplemented!() } //@ONLY_IF_PRESENT fold_free_placeholder_ty
    #[verifier::external_body] fn fold_free_placeholder_lifetime(&mut self, universe: PlaceholderIndex, outer_binder: DebruijnIndex) -> Lifetime<I> { unimplemented!() } //@ONLY_IF_PRESENT fold_free_placeholder_lifetime
    #[verifier::external_body] fn fold_free_placeholder_const(&mut self, ty: Ty<I>, universe: PlaceholderIndex, outer_binder: DebruijnIndex) -> Const<I> { unimplemented!() } //@ONLY_IF_PRESENT fold_free_placeholder_const
}

//@CONTRACT dflt_ty
    fn fold_free_placeholder_ty(&mut self, universe: PlaceholderIndex, outer_binder: DebruijnIndex) -> Ty<I> {
        default_fold_free_placeholder_ty(universe, outer_binder)
    }
//@END
//@CONTRACT dflt_lt
    fn fold_free_placeholder_lifetime(&mut self, universe: PlaceholderIndex, outer_binder: DebruijnIndex) -> Lifetime<I> {
        default_fold_free_placeholder_lifetime(universe, outer_binder)
    }
//@END
//@CONTRACT dflt_ct
    fn fold_free_placeholder_const(&mut self, ty: Ty<I>, universe: PlaceholderIndex, outer_binder: DebruijnIndex) -> Const<I> {
        default_fold_free_placeholder_const(ty, universe, outer_binder)
    }
//@END
//@CONTRACT nothing
//@END
//@CONTRACT forbid
    // the value being inverted is closed and fully resolved
    ensures r,
//@END
//@CONTRACT inv_ty
    ensures r != ty_of_placeholder::<I>(universe),
//@END
//@CONTRACT inv_lt
    ensures r != lifetime_of_placeholder::<I>(universe),
//@END
//@CONTRACT inv_ct
    ensures forall|t: Ty<I>| r != const_of_placeholder::<I>(universe, t),
//@END

} // verus!
fn main() {}
