// Unit V26 `rec_solve_root` — Verus.  C12, recursive solver: `RecursiveContext::solve_root_goal` is the
// only entry point of the recursive engine, and a panic in a database callback can abandon a solve at ANY
// point inside it (unwinding runs no clean-up code here: the engine has no Drop guard).  So whatever an
// abandoned solve left on the stack and in the search graph is what the next `solve_root_goal` finds.
// Contract: from ANY such state, `solve_root_goal` neither panics nor solves on top of the leftovers:
// `solve_goal` is entered with an empty stack and an empty search graph, exactly as in a fresh solver
// (the cache, which only ever holds finished results, is kept), and its answer is returned.
// The only thing assumed of the state at entry is the engine's own invariant "nothing on the stack =>
// nothing in the search graph" (true of a fresh context, after every completed solve — unit V24, F3 at
// the root — and at every point a callback can panic with an empty stack).
// On the pinned tree before the repair (commit 3e7a847) this contract is REFUTED: the function
// asserted `self.stack.is_empty()` — see known_findings.json (fixed) and DESIGN section 6c.
use vstd::prelude::*;
use std::fmt::Debug;
use std::hash::Hash;
verus! {



#[derive(Clone, Copy)]
pub struct DepthFirstNumber { pub index: usize }
impl DepthFirstNumber {
    pub const MIN: DepthFirstNumber = DepthFirstNumber { index: 0 };
    pub const MAX: DepthFirstNumber = DepthFirstNumber { index: usize::MAX };
}
#[derive(Clone, Copy)]
pub struct StackDepth { pub depth: usize }
impl vstd::std_specs::cmp::PartialEqSpecImpl for DepthFirstNumber {
    open spec fn obeys_eq_spec() -> bool { true }
    open spec fn eq_spec(&self, other: &Self) -> bool { self.index == other.index }
}
impl PartialEq for DepthFirstNumber { #[verifier::external_body] fn eq(&self, other: &Self) -> bool { unimplemented!() } }
// `#[derive(PartialOrd, Ord)]` on DepthFirstNumber { index }: the order of the index
impl vstd::std_specs::cmp::PartialOrdSpecImpl for DepthFirstNumber {
    open spec fn obeys_partial_cmp_spec() -> bool { true }
    open spec fn partial_cmp_spec(&self, other: &Self) -> Option<core::cmp::Ordering> {
        if self.index < other.index { Some(core::cmp::Ordering::Less) } else if self.index == other.index { Some(core::cmp::Ordering::Equal) } else { Some(core::cmp::Ordering::Greater) }
    }
}
impl PartialOrd for DepthFirstNumber { #[verifier::external_body] fn partial_cmp(&self, other: &Self) -> Option<core::cmp::Ordering> { unimplemented!() } }
// `impl Add<usize> for DepthFirstNumber` (search_graph.rs): index + v
impl core::ops::Add<usize> for DepthFirstNumber {
    type Output = DepthFirstNumber;
    #[verifier::external_body]
    fn add(self, v: usize) -> (r: DepthFirstNumber) ensures r.index as int == self.index as int + v as int { unimplemented!() }
}
impl vstd::std_specs::ops::AddSpecImpl<usize> for DepthFirstNumber {
    open spec fn obeys_add_spec() -> bool { false }
    open spec fn add_req(self, v: usize) -> bool { self.index as int + v as int <= usize::MAX as int }
    open spec fn add_spec(self, v: usize) -> DepthFirstNumber { self }
}

//@TYPE file=chalk-recursive/src/fixed_point.rs kind=struct name=Minimums attrs="#[derive(Clone, Copy)]"
impl Minimums {
    pub closed spec fn pos(self) -> usize { self.positive.index }
    pub closed spec fn at(d: DepthFirstNumber) -> Minimums { Minimums { positive: d } }
    #[verifier::external_body]
    pub fn new() -> (r: Self) ensures r.pos() == usize::MAX { unimplemented!() }
    /// `self.positive = min(self.positive, minimums.positive)` (std::cmp::min on the derived order of DepthFirstNumber)
    #[verifier::external_body]
    pub fn update_from(&mut self, minimums: Minimums)
        ensures final(self).pos() == if old(self).pos() <= minimums.pos() { old(self).pos() } else { minimums.pos() }
    { unimplemented!() }
}

#[verifier::reject_recursive_types(K)]
#[verifier::reject_recursive_types(V)]
pub struct Node<K, V> { pub goal: K, pub solution: V, pub stack_depth: Option<StackDepth>, pub links: Minimums }

/// ghost: one run of `solve_iteration` for `goal`
#[verifier::reject_recursive_types(K)]
#[verifier::reject_recursive_types(V)]
pub struct Iteration<K, V> {
    pub goal: K,
    /// the provisional answer stored for `goal` while the iteration ran
    pub assumed: V,
    pub produced: V,
    pub minimums: Minimums,
    /// the cycle flags of the stack when the iteration returned
    pub flags_after: Seq<bool>,
    /// how many batches of nodes had been moved to the permanent cache when the iteration returned
    pub moved_after: nat,
}

#[verifier::external_body]
#[verifier::reject_recursive_types(K)]
#[verifier::reject_recursive_types(V)]
pub struct SearchGraph<K, V> { _p: core::marker::PhantomData<(K, V)> }
impl<K, V> SearchGraph<K, V> {
    pub uninterp spec fn nodes(&self) -> Seq<Node<K, V>>;
    pub uninterp spec fn spec_lookup(&self, goal: K) -> Option<DepthFirstNumber>;
    /// GHOST: the iterations run so far on this graph, oldest first
    pub uninterp spec fn history(&self) -> Seq<Iteration<K, V>>;
    /// GHOST: how many times `move_to_cache` made nodes of this graph permanent
    pub uninterp spec fn moved(&self) -> nat;
    #[verifier::external_body]
    pub fn lookup(&self, goal: &K) -> (r: Option<DepthFirstNumber>) ensures r == self.spec_lookup(*goal) { unimplemented!() }
    /// search_graph.rs: appends a node whose `links` point at itself
    #[verifier::external_body]
    pub fn insert(&mut self, goal: &K, stack_depth: StackDepth, solution: V) -> (r: DepthFirstNumber)
        ensures
            r.index == old(self).nodes().len(),
            final(self).nodes() == old(self).nodes().push(Node { goal: *goal, solution, stack_depth: Some(stack_depth), links: Minimums::at(r) }),
            final(self).spec_lookup(*goal) == Some(r),
            final(self).history() == old(self).history(), final(self).moved() == old(self).moved(),
    { unimplemented!() }
    /// search_graph.rs: removes the nodes dfn.. and makes their answers permanent (the cache has interior mutability)
    #[verifier::external_body]
    pub fn move_to_cache(&mut self, dfn: DepthFirstNumber, cache: &Cache<K, V>)
        ensures
            final(self).nodes() == old(self).nodes().take(dfn.index as int),
            final(self).history() == old(self).history(), final(self).moved() == old(self).moved() + 1,
            final(self).last_moved() == old(self).nodes().skip(dfn.index as int),
    { unimplemented!() }
    /// GHOST: the nodes made permanent by the latest `move_to_cache`
    pub uninterp spec fn last_moved(&self) -> Seq<Node<K, V>>;
    /// search_graph.rs: truncates `nodes` to `dfn` and forgets the goals of the removed nodes
    #[verifier::external_body]
    pub fn rollback_to(&mut self, dfn: DepthFirstNumber)
        ensures
            final(self).nodes() == old(self).nodes().take(dfn.index as int),
            final(self).history() == old(self).history(), final(self).moved() == old(self).moved(),
            forall|g: K| (#[trigger] old(self).spec_lookup(g)) matches Some(d) && d.index < dfn.index ==> final(self).spec_lookup(g) == old(self).spec_lookup(g),
    { unimplemented!() }
}
impl<K, V> core::ops::Index<DepthFirstNumber> for SearchGraph<K, V> {
    type Output = Node<K, V>;
    #[verifier::external_body]
    fn index(&self, i: DepthFirstNumber) -> (r: &Node<K, V>) ensures *r == self.nodes()[i.index as int] { unimplemented!() }
}
// (no precondition: the real impls index a Vec and panic out of range; in-range is the callers' invariant, not verified here)
impl<K, V> vstd::std_specs::core::IndexSpecImpl<DepthFirstNumber> for SearchGraph<K, V> {
    open spec fn index_req(&self, i: &DepthFirstNumber) -> bool { true }
}
impl<K, V> core::ops::IndexMut<DepthFirstNumber> for SearchGraph<K, V> {
    #[verifier::external_body]
    fn index_mut(&mut self, i: DepthFirstNumber) -> (r: &mut Node<K, V>)
        ensures
            *r == old(self).nodes()[i.index as int],
            final(self).nodes() == old(self).nodes().update(i.index as int, *final(r)),
            final(self).history() == old(self).history(), final(self).moved() == old(self).moved(),
            forall|g: K| final(self).spec_lookup(g) == old(self).spec_lookup(g),
    { unimplemented!() }
}

//@TYPE file=chalk-recursive/src/fixed_point/stack.rs kind=struct name=StackEntry
impl StackEntry {
    pub closed spec fn flag(self) -> bool { self.cycle }
    /// proved by unit V23
    #[verifier::external_body]
    pub(crate) fn flag_cycle(&mut self) ensures final(self).flag() { unimplemented!() }
}

#[verifier::external_body]
pub(crate) struct Stack { _p: () }
impl Stack {
    /// the cycle flag of every entry, bottom first
    pub uninterp spec fn flags(&self) -> Seq<bool>;
    pub uninterp spec fn spec_mixed(&self, depth: StackDepth) -> bool;
    #[verifier::external_body]
    pub fn mixed_inductive_coinductive_cycle_from(&self, depth: StackDepth) -> (r: bool) ensures r == self.spec_mixed(depth) { unimplemented!() }
    /// proved by unit K11 (Kani): one more entry, flag clear
    #[verifier::external_body]
    pub fn push(&mut self, coinductive_goal: bool) -> (r: StackDepth)
        ensures r.depth == old(self).flags().len(), final(self).flags() == old(self).flags().push(false)
    { unimplemented!() }
    #[verifier::external_body]
    pub fn pop(&mut self, depth: StackDepth) { unimplemented!() }
    /// stack.rs: `self.entries.is_empty()`
    #[verifier::external_body]
    pub fn is_empty(&self) -> (r: bool) ensures r == (self.flags().len() == 0) { unimplemented!() }
    /// stack.rs: `self.entries.clear()`
    #[verifier::external_body]
    pub fn clear(&mut self) ensures final(self).flags().len() == 0 { unimplemented!() }
}
impl core::ops::Index<StackDepth> for Stack {
    type Output = StackEntry;
    #[verifier::external_body]
    fn index(&self, d: StackDepth) -> (r: &StackEntry) ensures r.flag() == self.flags()[d.depth as int] { unimplemented!() }
}
impl vstd::std_specs::core::IndexSpecImpl<StackDepth> for Stack {
    open spec fn index_req(&self, i: &StackDepth) -> bool { true }
}
impl core::ops::IndexMut<StackDepth> for Stack {
    #[verifier::external_body]
    fn index_mut(&mut self, d: StackDepth) -> (r: &mut StackEntry)
        ensures
            r.flag() == old(self).flags()[d.depth as int],
            final(self).flags() == old(self).flags().update(d.depth as int, final(r).flag()),
    { unimplemented!() }
}

#[verifier::external_body]
#[verifier::reject_recursive_types(K)]
#[verifier::reject_recursive_types(V)]
pub struct Cache<K, V> { _p: core::marker::PhantomData<(K, V)> }
impl<K, V> Cache<K, V> {
    pub uninterp spec fn spec_get(&self, goal: K) -> Option<V>;
    #[verifier::external_body]
    pub fn get(&self, goal: &K) -> (r: Option<V>) ensures r == self.spec_get(*goal) { unimplemented!() }
}

//@TYPE file=chalk-recursive/src/fixed_point.rs kind=struct name=RecursiveContext attrs="#[verifier::reject_recursive_types(K)] #[verifier::reject_recursive_types(V)]"



pub trait SolverStuff<K, V>: Copy where K: Hash + Eq + Debug + Clone, V: Debug + Clone {
    spec fn spec_error_value(self) -> V;
}
/// what `solve_goal` answers from a state that is fresh up to the cache (uninterpreted)
pub uninterp spec fn spec_solve_from_fresh<K, V>(cache: Option<Cache<K, V>>, goal: K) -> V;

impl<K, V> RecursiveContext<K, V> where K: Hash + Eq + Debug + Clone, V: Debug + Clone {
    pub closed spec fn graph(self) -> SearchGraph<K, V> { self.search_graph }
    pub closed spec fn stk(self) -> Stack { self.stack }
    pub closed spec fn cache_view(self) -> Option<Cache<K, V>> { self.cache }

    /// HAVOC (units V18 / V24 verify its text).  Its precondition is the statement of C12 for this engine: it is
    /// only ever started on a state that is fresh up to the cache.
    #[verifier::external_body]
    pub fn solve_goal(&mut self, goal: &K, minimums: &mut Minimums, solver_stuff: impl SolverStuff<K, V>, should_continue: impl std::ops::Fn() -> bool + Clone) -> (r: V)
        requires
            old(self).stk().flags().len() == 0,
            old(self).graph().nodes().len() == 0,
        ensures
            r == spec_solve_from_fresh(old(self).cache_view(), *goal),
    { unimplemented!() }

// ------------------------------------------------------------- real function
//@FN file=chalk-recursive/src/fixed_point.rs within="^impl<K, V> RecursiveContext<K, V> where" fn=solve_root_goal contract=solve_root path=RecursiveContext::solve_root_goal
}

//@CONTRACT solve_root
    requires
        // the engine's invariant; NOTHING else is known about a state an abandoned solve may have left behind
        old(self).stk().flags().len() == 0 ==> old(self).graph().nodes().len() == 0,
    ensures
        // the answer is the one a solver that is fresh up to its cache gives
        r == spec_solve_from_fresh(old(self).cache_view(), *canonical_goal),
//@END

} // verus!
fn main() {}
