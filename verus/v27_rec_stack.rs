// Unit V27 `rec_stack_unbounded` — Verus.  C09 ("the recursive solver stays within its configured overflow
// depth"), C12: the recursive solver's stack on the REAL struct (`Vec<StackEntry>` + `overflow_depth`), for
// every height (unit K11 checks the same contract with Kani up to 4 / 6 entries, plus the two abort paths):
//   new   : empty, limit as configured
//   push  : below the limit (at the limit the function aborts with "overflow depth reached": K11's should_panic
//           harness) it adds exactly one entry {coinductive_goal, cycle: false} on top, returns its depth, and the
//           height stays <= overflow_depth; the limit itself never changes
//   (pop uses `assert_eq!`, whose expansion needs an unstable library feature under this Verus: left to K11)
//   clear : removes every entry;   is_empty : height == 0
use vstd::prelude::*;
verus! {

// real definitions (extracted)
//@TYPE file=chalk-recursive/src/fixed_point/stack.rs kind=struct name=Stack
//@TYPE file=chalk-recursive/src/fixed_point/stack.rs kind=struct name=StackDepth attrs="#[derive(Clone, Copy)]"
//@TYPE file=chalk-recursive/src/fixed_point/stack.rs kind=struct name=StackEntry

impl StackEntry {
    pub closed spec fn coinductive(self) -> bool { self.coinductive_goal }
    pub closed spec fn flag(self) -> bool { self.cycle }
}
impl StackDepth {
    pub closed spec fn d(self) -> usize { self.depth }
}
impl Stack {
    pub closed spec fn entries_view(self) -> Seq<StackEntry> { self.entries@ }
    pub closed spec fn limit(self) -> usize { self.overflow_depth }
    /// the invariant C09 is about
    pub open spec fn within_limit(self) -> bool { self.entries_view().len() <= self.limit() }

//@FN file=chalk-recursive/src/fixed_point/stack.rs within="^impl Stack$" fn=new contract=new path=Stack::new
//@FN file=chalk-recursive/src/fixed_point/stack.rs within="^impl Stack$" fn=is_empty contract=is_empty path=Stack::is_empty
//@FN file=chalk-recursive/src/fixed_point/stack.rs within="^impl Stack$" fn=clear contract=clear path=Stack::clear
//@FN file=chalk-recursive/src/fixed_point/stack.rs within="^impl Stack$" fn=push contract=push path=Stack::push
}
//@CONTRACT new
    ensures r.entries_view().len() == 0, r.limit() == overflow_depth, r.within_limit(),
//@END
//@CONTRACT is_empty
    ensures r == (self.entries_view().len() == 0),
//@END
//@CONTRACT clear
    ensures final(self).entries_view().len() == 0, final(self).limit() == old(self).limit(), final(self).within_limit(),
//@END
//@CONTRACT push
    requires
        // at the limit the function aborts ("overflow depth reached") - that IS the bound; see K11 k11_push_at_limit_aborts
        old(self).entries_view().len() < old(self).limit(),
    ensures
        r.d() == old(self).entries_view().len(),
        final(self).entries_view().len() == old(self).entries_view().len() + 1,
        final(self).entries_view().drop_last() == old(self).entries_view(),
        final(self).entries_view().last().coinductive() == coinductive_goal,
        !final(self).entries_view().last().flag(),
        final(self).limit() == old(self).limit(),
        final(self).within_limit(),
//@END

} // verus!
fn main() {}
