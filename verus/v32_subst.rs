// Unit V32 `subst_callbacks` — Verus.  C25 ("substituting the bound variables of a binder"): the three callbacks of
// `Subst` (chalk-ir/src/fold/subst.rs), the leaf of `Binders::substitute` / `Subst::apply`, in FULL - including the
// branch that unit K2S (Kani) cannot reach because it goes through the generic fold driver:
//   variable of the eliminated binder (depth 0, index i) -> parameters[i], which must be of the variable's kind,
//                                                           shifted in by `outer_binder` (the binders of the term
//                                                           that the driver has entered)
//   variable of an enclosing binder (depth d >= 1)       -> the same index at depth d - 1 + outer_binder
//                                                           (one binder was removed)
// `Shift::shifted_in_from` on a whole term is abstract (uninterpreted); the index arithmetic of BoundVar /
// DebruijnIndex is unit K1's (Kani, full domain) and is used here through those contracts.
use vstd::prelude::*;
verus! {

pub trait Interner: Sized + Copy { type DefId: Copy; }
macro_rules! abstract_ty {
    ($($n:ident),*) => { verus! { $(
        #[verifier::external_body]
        #[verifier::reject_recursive_types(I)]
        pub struct $n<I: Interner> { _p: core::marker::PhantomData<I> }
    )* } }
}
abstract_ty!(Ty, Lifetime, Const, GenericArg);
//@CLONE_EQ generics="I: Interner" type="Ty<I>"
//@CLONE_EQ generics="I: Interner" type="Lifetime<I>"
//@CLONE_EQ generics="I: Interner" type="Const<I>"
#[derive(Clone, Copy)]
pub struct DebruijnIndex { pub depth: u32 }
#[derive(Clone, Copy)]
pub struct BoundVar { pub debruijn: DebruijnIndex, pub index: usize }

// real definitions (extracted)
//@TYPE file=chalk-ir/src/lib.rs kind=enum name=GenericArgData attrs="#[verifier::reject_recursive_types(I)]"
//@TYPE file=chalk-ir/src/fold/subst.rs kind=struct name=Subst attrs="#[verifier::reject_recursive_types(I)]"

pub uninterp spec fn arg_data<I: Interner>(a: GenericArg<I>) -> GenericArgData<I>;
pub uninterp spec fn ty_of_bound_var<I: Interner>(v: BoundVar) -> Ty<I>;
pub uninterp spec fn lifetime_of_bound_var<I: Interner>(v: BoundVar) -> Lifetime<I>;
pub uninterp spec fn const_of_bound_var<I: Interner>(v: BoundVar, ty: Ty<I>) -> Const<I>;
/// `Shift::shifted_in_from` on whole terms (generic fold; abstract)
pub uninterp spec fn shifted_ty<I: Interner>(t: Ty<I>, by: DebruijnIndex) -> Ty<I>;
pub uninterp spec fn shifted_lifetime<I: Interner>(t: Lifetime<I>, by: DebruijnIndex) -> Lifetime<I>;
pub uninterp spec fn shifted_const<I: Interner>(t: Const<I>, by: DebruijnIndex) -> Const<I>;
impl<I: Interner> GenericArg<I> {
    #[verifier::external_body]
    pub fn data(&self, interner: I) -> (r: &GenericArgData<I>) ensures *r == arg_data(*self) { unimplemented!() }
}
impl<I: Interner> Ty<I> {
    #[verifier::external_body]
    pub fn shifted_in_from(self, interner: I, by: DebruijnIndex) -> (r: Ty<I>) ensures r == shifted_ty(self, by) { unimplemented!() }
}
impl<I: Interner> Lifetime<I> {
    #[verifier::external_body]
    pub fn shifted_in_from(self, interner: I, by: DebruijnIndex) -> (r: Lifetime<I>) ensures r == shifted_lifetime(self, by) { unimplemented!() }
}
impl<I: Interner> Const<I> {
    #[verifier::external_body]
    pub fn shifted_in_from(self, interner: I, by: DebruijnIndex) -> (r: Const<I>) ensures r == shifted_const(self, by) { unimplemented!() }
}
/// index arithmetic: contracts proved by unit K1 on the real functions (full machine domain)
impl BoundVar {
    #[verifier::external_body]
    pub fn index_if_innermost(self) -> (r: Option<usize>)
        ensures r == (if self.debruijn.depth == 0 { Some(self.index) } else { None::<usize> })
    { unimplemented!() }
    #[verifier::external_body]
    pub fn shifted_out(self) -> (r: Option<BoundVar>)
        ensures r == (if self.debruijn.depth == 0 { None::<BoundVar> } else { Some(BoundVar { debruijn: DebruijnIndex { depth: (self.debruijn.depth - 1) as u32 }, index: self.index }) })
    { unimplemented!() }
    #[verifier::external_body]
    pub fn shifted_in_from(self, outer_binder: DebruijnIndex) -> (r: BoundVar)
        requires self.debruijn.depth + outer_binder.depth <= u32::MAX,
        ensures r == (BoundVar { debruijn: DebruijnIndex { depth: (self.debruijn.depth + outer_binder.depth) as u32 }, index: self.index })
    { unimplemented!() }
    #[verifier::external_body]
    pub fn to_ty<I: Interner>(self, interner: I) -> (r: Ty<I>) ensures r == ty_of_bound_var::<I>(self) { unimplemented!() }
    #[verifier::external_body]
    pub fn to_lifetime<I: Interner>(self, interner: I) -> (r: Lifetime<I>) ensures r == lifetime_of_bound_var::<I>(self) { unimplemented!() }
    #[verifier::external_body]
    pub fn to_const<I: Interner>(self, interner: I, ty: Ty<I>) -> (r: Const<I>) ensures r == const_of_bound_var::<I>(self, ty) { unimplemented!() }
}

impl<'s, I: Interner> Subst<'s, I> {
    pub closed spec fn params(self) -> Seq<GenericArg<I>> { self.parameters@ }
}
/// the variable as the driver hands it over, with one binder removed and re-bound under `ob` binders
pub open spec fn outer_var(v: BoundVar, ob: DebruijnIndex) -> BoundVar {
    BoundVar { debruijn: DebruijnIndex { depth: (v.debruijn.depth - 1 + ob.depth) as u32 }, index: v.index }
}

// ------------------------------------------------------------- real functions
pub trait TypeFolder<I: Interner>: Sized {
    /// (Verus takes preconditions of trait methods from the trait declaration only)
    spec fn wf_var(self, bound_var: BoundVar, outer_binder: DebruijnIndex, kind: int) -> bool;
    fn interner(&self) -> I;
    fn fold_free_var_ty(&mut self, bound_var: BoundVar, outer_binder: DebruijnIndex) -> Ty<I>
        requires old(self).wf_var(bound_var, outer_binder, 0);
    fn fold_free_var_lifetime(&mut self, bound_var: BoundVar, outer_binder: DebruijnIndex) -> Lifetime<I>
        requires old(self).wf_var(bound_var, outer_binder, 1);
    fn fold_free_var_const(&mut self, ty: Ty<I>, bound_var: BoundVar, outer_binder: DebruijnIndex) -> Const<I>
        requires old(self).wf_var(bound_var, outer_binder, 2);
}
impl<I: Interner> TypeFolder<I> for Subst<'_, I> {
    /// the substitution fits the binder it eliminates (the code panics otherwise: "mismatched kinds in substitution",
    /// slice index out of range) and the depth arithmetic does not overflow
    open spec fn wf_var(self, bound_var: BoundVar, outer_binder: DebruijnIndex, kind: int) -> bool {
        &&& bound_var.debruijn.depth == 0 ==> bound_var.index < self.params().len() && (match arg_data(self.params()[bound_var.index as int]) {
                GenericArgData::Ty(_) => kind == 0, GenericArgData::Lifetime(_) => kind == 1, GenericArgData::Const(_) => kind == 2 })
        &&& bound_var.debruijn.depth >= 1 ==> bound_var.debruijn.depth - 1 + outer_binder.depth <= u32::MAX
    }
//@FN file=chalk-ir/src/fold/subst.rs within="^impl<I: Interner> TypeFolder<I> for Subst<'_, I>$" fn=interner contract=nothing path=Subst::interner
//@FN file=chalk-ir/src/fold/subst.rs within="^impl<I: Interner> TypeFolder<I> for Subst<'_, I>$" fn=fold_free_var_ty contract=s_ty path=Subst::fold_free_var_ty
//@FN file=chalk-ir/src/fold/subst.rs within="^impl<I: Interner> TypeFolder<I> for Subst<'_, I>$" fn=fold_free_var_lifetime contract=s_lt path=Subst::fold_free_var_lifetime
//@FN file=chalk-ir/src/fold/subst.rs within="^impl<I: Interner> TypeFolder<I> for Subst<'_, I>$" fn=fold_free_var_const contract=s_ct path=Subst::fold_free_var_const
}
//@CONTRACT nothing
//@END
//@CONTRACT s_ty
    ensures
        bound_var.debruijn.depth == 0 ==> r == shifted_ty(arg_data(old(self).params()[bound_var.index as int])->Ty_0, outer_binder),
        bound_var.debruijn.depth >= 1 ==> r == ty_of_bound_var::<I>(outer_var(bound_var, outer_binder)),
        final(self).params() == old(self).params(),
//@END
//@CONTRACT s_lt
    ensures
        bound_var.debruijn.depth == 0 ==> r == shifted_lifetime(arg_data(old(self).params()[bound_var.index as int])->Lifetime_0, outer_binder),
        bound_var.debruijn.depth >= 1 ==> r == lifetime_of_bound_var::<I>(outer_var(bound_var, outer_binder)),
        final(self).params() == old(self).params(),
//@END
//@CONTRACT s_ct
    ensures
        bound_var.debruijn.depth == 0 ==> r == shifted_const(arg_data(old(self).params()[bound_var.index as int])->Const_0, outer_binder),
        bound_var.debruijn.depth >= 1 ==> r == const_of_bound_var::<I>(outer_var(bound_var, outer_binder), ty),
        final(self).params() == old(self).params(),
//@END

} // verus!
fn main() {}
