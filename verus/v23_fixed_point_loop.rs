// Unit V23 `rec_fixed_point_loop` — Verus.  C02 / C05 / C01: the iteration that turns the
// recursive solver's provisional answers into final ones, `RecursiveContext::solve_new_subgoal`
// (generic in goal type K and answer type V).  When it returns,
//   * the answer stored for the goal is exactly what the LAST iteration produced, and
//   * either no subgoal of that iteration depended on the goal itself (its cycle flag was clear),
//     or the iteration was run against a provisional answer `assumed` for which
//     `reached_fixed_point(assumed, produced)` holds — i.e. the stored answer is a fixed point
//     (least one when started from "no solution", greatest when started from the coinductive
//     "trivially true": the start values are unit V3's), and
//   * the returned minimums are those of that last iteration.
// Ghost state: the abstract search graph carries a history of iterations (which provisional
// answer an iteration ran against, what it produced, the cycle flags it left behind); the
// havoc contract of `solve_iteration` appends to it.  Partial correctness: termination of the
// loop (the comment in the code argues it from monotonicity) is not claimed.
use vstd::prelude::*;
use std::fmt::Debug;
use std::hash::Hash;
verus! {

#[derive(Clone, Copy)]
pub struct DepthFirstNumber { pub index: usize }
impl DepthFirstNumber {
    pub const MAX: DepthFirstNumber = DepthFirstNumber { index: usize::MAX };
}
#[derive(Clone, Copy)]
pub struct StackDepth { pub depth: usize }
impl vstd::std_specs::cmp::PartialEqSpecImpl for DepthFirstNumber {
    open spec fn obeys_eq_spec() -> bool { true }
    open spec fn eq_spec(&self, other: &Self) -> bool { self.index == other.index }
}
impl PartialEq for DepthFirstNumber { #[verifier::external_body] fn eq(&self, other: &Self) -> bool { unimplemented!() } }
// `#[derive(PartialOrd, Ord)]` on DepthFirstNumber { index }: the order of the index
impl vstd::std_specs::cmp::PartialOrdSpecImpl for DepthFirstNumber {
    open spec fn obeys_partial_cmp_spec() -> bool { true }
    open spec fn partial_cmp_spec(&self, other: &Self) -> Option<core::cmp::Ordering> {
        if self.index < other.index { Some(core::cmp::Ordering::Less) } else if self.index == other.index { Some(core::cmp::Ordering::Equal) } else { Some(core::cmp::Ordering::Greater) }
    }
}
impl PartialOrd for DepthFirstNumber { #[verifier::external_body] fn partial_cmp(&self, other: &Self) -> Option<core::cmp::Ordering> { unimplemented!() } }
// `impl Add<usize> for DepthFirstNumber` (search_graph.rs): index + v
impl core::ops::Add<usize> for DepthFirstNumber {
    type Output = DepthFirstNumber;
    #[verifier::external_body]
    fn add(self, v: usize) -> (r: DepthFirstNumber) ensures r.index as int == self.index as int + v as int { unimplemented!() }
}
impl vstd::std_specs::ops::AddSpecImpl<usize> for DepthFirstNumber {
    open spec fn obeys_add_spec() -> bool { false }
    open spec fn add_req(self, v: usize) -> bool { self.index as int + v as int <= usize::MAX as int }
    open spec fn add_spec(self, v: usize) -> DepthFirstNumber { self }
}

//@TYPE file=chalk-recursive/src/fixed_point.rs kind=struct name=Minimums attrs="#[derive(Clone, Copy)]"
impl Minimums {
    pub closed spec fn pos(self) -> usize { self.positive.index }
//@FN file=chalk-recursive/src/fixed_point.rs within="^impl Minimums$" fn=new contract=min_new path=Minimums::new
}
//@CONTRACT min_new
    ensures r.pos() == usize::MAX,
//@END

#[verifier::reject_recursive_types(K)]
#[verifier::reject_recursive_types(V)]
pub struct Node<K, V> { pub goal: K, pub solution: V, pub stack_depth: Option<StackDepth>, pub links: Minimums }

/// ghost: one run of `solve_iteration` for `goal`
#[verifier::reject_recursive_types(K)]
#[verifier::reject_recursive_types(V)]
pub struct Iteration<K, V> {
    pub goal: K,
    /// the provisional answer stored for `goal` while the iteration ran
    pub assumed: V,
    pub produced: V,
    pub minimums: Minimums,
    /// the cycle flags of the stack when the iteration returned
    pub flags_after: Seq<bool>,
    /// how many batches of nodes had been moved to the permanent cache when the iteration returned
    pub moved_after: nat,
}

#[verifier::external_body]
#[verifier::reject_recursive_types(K)]
#[verifier::reject_recursive_types(V)]
pub struct SearchGraph<K, V> { _p: core::marker::PhantomData<(K, V)> }
impl<K, V> SearchGraph<K, V> {
    pub uninterp spec fn nodes(&self) -> Seq<Node<K, V>>;
    pub uninterp spec fn spec_lookup(&self, goal: K) -> Option<DepthFirstNumber>;
    /// GHOST: the iterations run so far on this graph, oldest first
    pub uninterp spec fn history(&self) -> Seq<Iteration<K, V>>;
    /// GHOST: how many times `move_to_cache` made nodes of this graph permanent
    pub uninterp spec fn moved(&self) -> nat;
    /// search_graph.rs: truncates `nodes` to `dfn` and forgets the goals of the removed nodes
    #[verifier::external_body]
    pub fn rollback_to(&mut self, dfn: DepthFirstNumber)
        ensures
            final(self).nodes() == old(self).nodes().take(dfn.index as int),
            final(self).history() == old(self).history(), final(self).moved() == old(self).moved(),
            forall|g: K| (#[trigger] old(self).spec_lookup(g)) matches Some(d) && d.index < dfn.index ==> final(self).spec_lookup(g) == old(self).spec_lookup(g),
    { unimplemented!() }
}
impl<K, V> core::ops::Index<DepthFirstNumber> for SearchGraph<K, V> {
    type Output = Node<K, V>;
    #[verifier::external_body]
    fn index(&self, i: DepthFirstNumber) -> (r: &Node<K, V>) ensures *r == self.nodes()[i.index as int] { unimplemented!() }
}
// (no precondition: the real impls index a Vec and panic out of range; in-range is the callers' invariant, not verified here)
impl<K, V> vstd::std_specs::core::IndexSpecImpl<DepthFirstNumber> for SearchGraph<K, V> {
    open spec fn index_req(&self, i: &DepthFirstNumber) -> bool { true }
}
impl<K, V> core::ops::IndexMut<DepthFirstNumber> for SearchGraph<K, V> {
    #[verifier::external_body]
    fn index_mut(&mut self, i: DepthFirstNumber) -> (r: &mut Node<K, V>)
        ensures
            *r == old(self).nodes()[i.index as int],
            final(self).nodes() == old(self).nodes().update(i.index as int, *final(r)),
            final(self).history() == old(self).history(), final(self).moved() == old(self).moved(),
            forall|g: K| final(self).spec_lookup(g) == old(self).spec_lookup(g),
    { unimplemented!() }
}

//@TYPE file=chalk-recursive/src/fixed_point/stack.rs kind=struct name=StackEntry
impl StackEntry {
    pub closed spec fn flag(self) -> bool { self.cycle }
//@FN file=chalk-recursive/src/fixed_point/stack.rs within="^impl StackEntry$" fn=flag_cycle contract=flag_cycle path=StackEntry::flag_cycle
//@FN file=chalk-recursive/src/fixed_point/stack.rs within="^impl StackEntry$" fn=read_and_reset_cycle_flag contract=read_reset path=StackEntry::read_and_reset_cycle_flag
}
//@CONTRACT flag_cycle
    ensures final(self).flag(),
//@END
//@CONTRACT read_reset
    ensures r == old(self).flag(), !final(self).flag(),
//@END
use std::mem;

#[verifier::external_body]
pub(crate) struct Stack { _p: () }
impl Stack {
    /// the cycle flag of every entry, bottom first
    pub uninterp spec fn flags(&self) -> Seq<bool>;
}
impl core::ops::Index<StackDepth> for Stack {
    type Output = StackEntry;
    #[verifier::external_body]
    fn index(&self, d: StackDepth) -> (r: &StackEntry) ensures r.flag() == self.flags()[d.depth as int] { unimplemented!() }
}
impl vstd::std_specs::core::IndexSpecImpl<StackDepth> for Stack {
    open spec fn index_req(&self, i: &StackDepth) -> bool { true }
}
impl core::ops::IndexMut<StackDepth> for Stack {
    #[verifier::external_body]
    fn index_mut(&mut self, d: StackDepth) -> (r: &mut StackEntry)
        ensures
            r.flag() == old(self).flags()[d.depth as int],
            final(self).flags() == old(self).flags().update(d.depth as int, final(r).flag()),
    { unimplemented!() }
}

#[verifier::external_body]
#[verifier::reject_recursive_types(K)]
#[verifier::reject_recursive_types(V)]
pub struct Cache<K, V> { _p: core::marker::PhantomData<(K, V)> }

//@TYPE file=chalk-recursive/src/fixed_point.rs kind=struct name=RecursiveContext attrs="#[verifier::reject_recursive_types(K)] #[verifier::reject_recursive_types(V)]"

/// the node of `goal` in the graph (the goal is in the graph while it is being solved)
pub open spec fn node_of<K, V>(g: SearchGraph<K, V>, goal: K) -> Node<K, V> {
    g.nodes()[g.spec_lookup(goal)->0.index as int]
}

pub trait SolverStuff<K, V>: Copy where K: Hash + Eq + Debug + Clone, V: Debug + Clone {
    spec fn spec_reached_fixed_point(self, old_value: V, new_value: V) -> bool;
    /// HAVOC (solve.rs; calls back into solve_goal for every subgoal).  Assumed: it reports in the ghost
    /// history what it ran against and what it produced; it leaves the goal's own node, and the nodes below
    /// it, where they are (nested solves only push and pop nodes ABOVE it) and the stack as high as it was.
    /// (the real trait writes `should_continue: impl Fn() -> bool + Clone`; with that spelling in a method of this
    /// generic trait the Verus front end does not terminate, so the callback type is a named parameter here)
    fn solve_iteration<F: std::ops::Fn() -> bool + Clone>(self, context: &mut RecursiveContext<K, V>, goal: &K, minimums: &mut Minimums, should_continue: F) -> (r: V)
        requires old(context).graph().spec_lookup(*goal) is Some,
        ensures
            final(context).graph().history().len() > 0,
            final(context).graph().history().last() == (Iteration {
                goal: *goal, assumed: node_of(old(context).graph(), *goal).solution, produced: r,
                minimums: *final(minimums), flags_after: final(context).stk().flags(), moved_after: final(context).graph().moved() }),
            final(context).graph().spec_lookup(*goal) == old(context).graph().spec_lookup(*goal),
            final(context).graph().nodes().len() > old(context).graph().spec_lookup(*goal)->0.index,
            node_of(final(context).graph(), *goal) == node_of(old(context).graph(), *goal),
            final(context).stk().flags().len() == old(context).stk().flags().len();
    fn reached_fixed_point(self, old_value: &V, new_value: &V) -> (r: bool)
        ensures r == self.spec_reached_fixed_point(*old_value, *new_value);
}

// std::mem::replace: "Moves src into the referenced dest, returning the previous dest value."
pub assume_specification<T>[ std::mem::replace::<T> ](dest: &mut T, src: T) -> (r: T)
    ensures r == *old(dest), *final(dest) == src;

impl<K, V> RecursiveContext<K, V> where K: Hash + Eq + Debug + Clone, V: Debug + Clone {
    pub closed spec fn graph(self) -> SearchGraph<K, V> { self.search_graph }
    pub closed spec fn stk(self) -> Stack { self.stack }
}
// (the impl block of the real function asks for `V: PartialEq` since the repair of DESIGN section 6g; the bound is stated
//  here for every tree - it is satisfied by the only instantiation, Fallible<Solution<I>>)
impl<K, V> RecursiveContext<K, V> where K: Hash + Eq + Debug + Clone, V: Debug + Clone + PartialEq {

// ------------------------------------------------------------- real function
//@FN file=chalk-recursive/src/fixed_point.rs within="^impl<K, V> RecursiveContext<K, V> where" fn=solve_new_subgoal contract=fixed_point loopinv=fp_loop loopform="loop" fnattrs="#[verifier::exec_allows_no_decreases_clause]" path=RecursiveContext::solve_new_subgoal
}

//@CONTRACT fixed_point
    requires
        // from the call site in solve_goal: the goal was just inserted at `dfn` and pushed at `depth`
        old(self).graph().spec_lookup(*canonical_goal) == Some(dfn),
        (dfn.index as int) < old(self).graph().nodes().len(),
        (depth.depth as int) < old(self).stk().flags().len(),
        dfn.index < usize::MAX,
        // the caller's callback may be called
        should_continue.requires(()),
        // `==` on answers is structural equality (derived PartialEq)
        forall|a: V, b: V, r: bool| call_ensures(<V as PartialEq>::ne, (&a, &b), r) ==> r == (a != b),
        forall|a: V, b: V, r: bool| call_ensures(<V as PartialEq>::eq, (&a, &b), r) ==> r == (a == b),
    ensures
        final(self).graph().history().len() > 0,
        final(self).graph().history().last().goal == *canonical_goal,
        // the stored answer is what the last iteration produced ...
        final(self).graph().nodes()[dfn.index as int].solution == final(self).graph().history().last().produced,
        // ... it is a fixed point, unless the iteration did not depend on the goal's own provisional answer
        !final(self).graph().history().last().flags_after[depth.depth as int]
            || solver_stuff.spec_reached_fixed_point(final(self).graph().history().last().assumed, final(self).graph().history().last().produced),
        // ... and the cycle information handed to the caller is that of the same iteration
        r == final(self).graph().history().last().minimums,
        // (G) C10: if the loop stops although the answer still CHANGED in the last iteration (it is allowed to, once the
        // answer is ambiguous), whatever the other members of the cycle computed was based on the previous answer:
        // nothing above the goal's own node may be left in the graph (where solve_goal would make it permanent)
        final(self).graph().history().last().flags_after[depth.depth as int]
            && final(self).graph().history().last().assumed != final(self).graph().history().last().produced
            ==> final(self).graph().nodes().len() == dfn.index + 1,
        // the goal is still where it was
        final(self).graph().spec_lookup(*canonical_goal) == Some(dfn),
        (dfn.index as int) < final(self).graph().nodes().len(),
        final(self).graph().nodes()[dfn.index as int].goal == old(self).graph().nodes()[dfn.index as int].goal,
        // nothing was made permanent after the last iteration returned
        final(self).graph().moved() == final(self).graph().history().last().moved_after,
//@END
//@CONTRACT fp_loop
            invariant
                self.graph().spec_lookup(*canonical_goal) == Some(dfn),
                (dfn.index as int) < self.graph().nodes().len(),
                (depth.depth as int) < self.stk().flags().len(),
                dfn.index < usize::MAX,
                should_continue.requires(()),
                forall|a: V, b: V, r: bool| call_ensures(<V as PartialEq>::ne, (&a, &b), r) ==> r == (a != b),
                forall|a: V, b: V, r: bool| call_ensures(<V as PartialEq>::eq, (&a, &b), r) ==> r == (a == b),
                self.graph().nodes()[dfn.index as int].goal == old(self).graph().nodes()[dfn.index as int].goal,
//@END

} // verus!
fn main() {}
