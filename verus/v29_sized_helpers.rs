// Unit V29 `sized_helpers` — Verus.  C08: the two helpers behind the `Sized` rules for structs and tuples
// (chalk-solve/src/clauses/builtin_traits/sized.rs), which unit V11 uses under assumed contracts:
//   push_adt_sized_conditions   : `S<..>: Sized :- Implemented(LastField: Sized)` — exactly the LAST field of the
//                                 struct (with the struct's arguments substituted), or the bare fact when
//                                 `last_field_of_struct` finds none (no fields / not a struct)
//   push_tuple_sized_conditions : the bare fact for the 0-tuple; otherwise `(.., L): Sized :- Implemented(L: Sized)`
//                                 for exactly the LAST element
// `last_field_of_struct` (closures over binders), `needs_impl_for_tys` (iterator map) and the argument list of a
// substitution are abstract.
use vstd::prelude::*;
verus! {


pub trait Interner: Sized + Copy { type DefId: Copy; }
pub trait HasInterner { type Interner: Interner; }

macro_rules! abstract_ty {
    ($($n:ident),*) => { verus! { $(
        #[verifier::external_body]
        #[verifier::reject_recursive_types(I)]
        pub struct $n<I: Interner> { _p: core::marker::PhantomData<I> }
    )* } }
}
abstract_ty!(Ty, Substitution, Const, Lifetime, DynTy, AliasTy, FnPointer, CanonicalVarKinds, AdtId, AssocTypeId, OpaqueTyId, FnDefId, ClosureId, CoroutineId, ForeignDefId);
// chalk-ir: `#[derive(Copy, Clone, ..)] pub struct AdtId<I: Interner>(pub I::InternedAdtId);`
impl<I: Interner> Copy for AdtId<I> {}
impl<I: Interner> Clone for AdtId<I> { #[verifier::external_body] fn clone(&self) -> (r: Self) ensures r == *self { unimplemented!() } }
#[verifier::external_body] pub struct Scalar { _p: () }
#[verifier::external_body] pub struct Mutability { _p: () }
#[verifier::external_body] pub struct PlaceholderIndex { _p: () }
#[verifier::external_body] pub struct InferenceVar { _p: () }
#[verifier::external_body] pub struct UniverseIndex { _p: () }
pub struct Floundered;

// real definitions (extracted)
//@TYPE file=chalk-ir/src/lib.rs kind=struct name=DebruijnIndex
//@TYPE file=chalk-ir/src/lib.rs kind=struct name=BoundVar
//@TYPE file=chalk-ir/src/lib.rs kind=enum name=TyVariableKind
//@TYPE file=chalk-ir/src/lib.rs kind=enum name=VariableKind attrs="#[verifier::reject_recursive_types(I)]"
//@TYPE file=chalk-ir/src/lib.rs kind=struct name=WithKind attrs="#[verifier::reject_recursive_types(I)] #[verifier::reject_recursive_types(T)]"
//@TYPE file=chalk-ir/src/lib.rs kind=enum name=TyKind attrs="#[verifier::reject_recursive_types(I)]"
//@TYPE file=chalk-ir/src/lib.rs kind=struct name=TraitId attrs="#[verifier::reject_recursive_types(I)]"
//@TYPE file=chalk-ir/src/lib.rs kind=struct name=TraitRef attrs="#[verifier::reject_recursive_types(I)]"
pub type CanonicalVarKind<I> = WithKind<I, UniverseIndex>;
impl<I: Interner, T> WithKind<I, T> {
    pub closed spec fn spec_kind(self) -> VariableKind<I> { self.kind }
}

impl<I: Interner> CanonicalVarKinds<I> {
    pub uninterp spec fn spec_at(&self, index: usize) -> CanonicalVarKind<I>;
    /// `binders.at(i)` (precondition: the bound variable refers to an existing binder — caller's obligation)
    #[verifier::external_body]
    pub fn at(&self, interner: I, index: usize) -> (r: &CanonicalVarKind<I>)
        ensures *r == self.spec_at(index)
    { unimplemented!() }
}

impl<I: Interner> Copy for ClosureId<I> {}
impl<I: Interner> Clone for ClosureId<I> { #[verifier::external_body] fn clone(&self) -> (r: Self) ensures r == *self { unimplemented!() } }

#[verifier::external_body]
#[verifier::reject_recursive_types(T)]
pub struct Binders<T> { _p: core::marker::PhantomData<T> }
pub uninterp spec fn spec_substitute<I: Interner, T>(b: Binders<T>, p: Substitution<I>) -> T;
impl<T> Binders<T> {
    #[verifier::external_body]
    pub fn substitute<I: Interner>(self, interner: I, parameters: &Substitution<I>) -> (r: T)
        ensures r == spec_substitute(self, *parameters)
    { unimplemented!() }
}

//@TYPE file=chalk-solve/src/rust_ir.rs kind=enum name=WellKnownTrait
pub uninterp spec fn ty_kind<I: Interner>(t: Ty<I>) -> TyKind<I>;
pub uninterp spec fn spec_from1<I: Interner>(t: Ty<I>) -> Substitution<I>;
impl<I: Interner> Ty<I> {
    #[verifier::external_body]
    pub fn kind(&self, interner: I) -> (r: &TyKind<I>) ensures *r == ty_kind(*self) { unimplemented!() }
}
impl<I: Interner> Substitution<I> {
    #[verifier::external_body]
    pub fn from1(interner: I, arg: Ty<I>) -> (r: Self) ensures r == spec_from1(arg) { unimplemented!() }
}
impl<I: Interner> Copy for TraitId<I> {}
impl<I: Interner> Clone for TraitId<I> { #[verifier::external_body] fn clone(&self) -> (r: Self) ensures r == *self { unimplemented!() } }

// neighbourhood API (not used by the pinned code of this unit): the ADT's datum, so that an edit which
// consults the ADT's flags or kind is DECIDED against the language rule instead of being undecided
#[verifier::external_body]
#[verifier::reject_recursive_types(I)]
pub struct AdtDatumBound<I: Interner> { _p: core::marker::PhantomData<I> }
//@TYPE file=chalk-solve/src/rust_ir.rs kind=enum name=AdtKind attrs="#[derive(Clone, Copy)]"
//@TYPE file=chalk-solve/src/rust_ir.rs kind=struct name=AdtFlags
//@TYPE file=chalk-solve/src/rust_ir.rs kind=struct name=AdtDatum attrs="#[verifier::reject_recursive_types(I)]"
impl vstd::std_specs::cmp::PartialEqSpecImpl for AdtKind {
    open spec fn obeys_eq_spec() -> bool { true }
    open spec fn eq_spec(&self, other: &Self) -> bool { *self == *other }
}
impl PartialEq for AdtKind { #[verifier::external_body] fn eq(&self, other: &Self) -> bool { unimplemented!() } }

pub trait RustIrDatabase<I: Interner> {
    fn interner(&self) -> I;
    spec fn spec_adt_datum(&self, id: AdtId<I>) -> AdtDatum<I>;
    fn adt_datum(&self, adt_id: AdtId<I>) -> (r: std::sync::Arc<AdtDatum<I>>)
        ensures *r == self.spec_adt_datum(adt_id);
    spec fn spec_well_known(&self, t: WellKnownTrait) -> Option<TraitId<I>>;
    /// (the lang item is declared whenever a goal for it exists: the code unwraps)
    fn well_known_trait_id(&self, well_known_trait: WellKnownTrait) -> (r: Option<TraitId<I>>)
        ensures r == self.spec_well_known(well_known_trait), r is Some;
    spec fn spec_closure_fn_substitution(&self, id: ClosureId<I>, s: Substitution<I>) -> Substitution<I>;
    spec fn spec_closure_upvars(&self, id: ClosureId<I>, s: Substitution<I>) -> Binders<Ty<I>>;
    fn closure_fn_substitution(&self, closure_id: ClosureId<I>, substs: &Substitution<I>) -> (r: Substitution<I>)
        ensures r == self.spec_closure_fn_substitution(closure_id, *substs);
    fn closure_upvars(&self, closure_id: ClosureId<I>, substs: &Substitution<I>) -> (r: Binders<Ty<I>>)
        ensures r == self.spec_closure_upvars(closure_id, *substs);
}

// ---- std iterators used to hand types to `needs_impl_for_tys` (assumed std contracts)
#[verifier::reject_recursive_types(A)]
#[verifier::external_type_specification]
#[verifier::external_body]
pub struct ExIntoIter<A>(std::option::IntoIter<A>);
#[verifier::reject_recursive_types(T)]
#[verifier::external_type_specification]
#[verifier::external_body]
pub struct ExOnce<T>(std::iter::Once<T>);
pub uninterp spec fn once_view<T>(o: std::iter::Once<T>) -> Seq<T>;
pub uninterp spec fn optiter_view<T>(o: std::option::IntoIter<T>) -> Seq<T>;
pub assume_specification<T>[ std::iter::once ](t: T) -> (r: std::iter::Once<T>)
    ensures once_view(r) == seq![t];
pub assume_specification<T>[ <Option<T> as IntoIterator>::into_iter ](o: Option<T>) -> (r: std::option::IntoIter<T>)
    ensures optiter_view(r) == (match o { Some(x) => seq![x], None => Seq::<T>::empty() });
pub mod iter { pub use std::iter::once; }

pub trait TySeq<I: Interner> { spec fn tys(&self) -> Seq<Ty<I>>; }
impl<I: Interner> TySeq<I> for std::iter::Once<Ty<I>> { open spec fn tys(&self) -> Seq<Ty<I>> { once_view(*self) } }
impl<I: Interner> TySeq<I> for std::option::IntoIter<Ty<I>> { open spec fn tys(&self) -> Seq<Ty<I>> { optiter_view(*self) } }


// ---- the clause builder with a ghost log of what was pushed
#[verifier::reject_recursive_types(I)]
pub enum Pushed<I: Interner> {
    /// `builder.push_fact(trait_ref)`: the unconditional clause `trait_ref.`
    Fact(TraitRef<I>),
    /// `trait_ref :- every given type : Trait` (needs_impl_for_tys); with no type at all this is the fact
    NeedsImplFor(TraitRef<I>, Seq<Ty<I>>),
}
#[verifier::external_body]
#[verifier::reject_recursive_types(I)]
pub struct ClauseBuilder<'me, I: Interner> { _p: core::marker::PhantomData<&'me I> }
impl<'me, I: Interner> ClauseBuilder<'me, I> {
    pub uninterp spec fn log(&self) -> Seq<Pushed<I>>;
    #[verifier::external_body]
    pub fn push_fact(&mut self, consequence: TraitRef<I>)
        ensures final(self).log() == old(self).log().push(Pushed::Fact(consequence))
    { unimplemented!() }
}
/// real signature: `tys: impl Iterator<Item = Ty<I>>`; the unit only needs to know WHICH types are handed over
#[verifier::external_body]
fn needs_impl_for_tys<I: Interner, It: TySeq<I>>(db: &dyn RustIrDatabase<I>, builder: &mut ClauseBuilder<'_, I>, trait_ref: TraitRef<I>, tys: It)
    ensures final(builder).log() == old(builder).log().push(Pushed::NeedsImplFor(trait_ref, tys.tys()))
{ unimplemented!() }

/// builtin_traits.rs: the type of the struct's last field with the struct's arguments substituted (abstract)
pub uninterp spec fn spec_last_field<I: Interner>(id: AdtId<I>, subst: Substitution<I>) -> Option<Ty<I>>;
#[verifier::external_body]
fn last_field_of_struct<I: Interner>(db: &dyn RustIrDatabase<I>, id: AdtId<I>, subst: &Substitution<I>) -> (r: Option<Ty<I>>)
    ensures r == spec_last_field(id, *subst)
{ unimplemented!() }

// ---- a substitution's argument list (abstract)
#[verifier::external_body]
#[verifier::reject_recursive_types(I)]
pub struct GenericArg<I: Interner> { _p: core::marker::PhantomData<I> }
/// stands for `std::slice::Iter<'_, GenericArg<I>>` (what `Substitution::iter` returns)
#[verifier::external_body]
#[verifier::reject_recursive_types(I)]
pub struct ArgIter<'a, I: Interner> { _p: core::marker::PhantomData<&'a I> }
pub uninterp spec fn subst_args<I: Interner>(s: Substitution<I>) -> Seq<GenericArg<I>>;
/// `GenericArg::ty`: the type, if the argument is one
pub uninterp spec fn arg_ty<I: Interner>(a: GenericArg<I>) -> Option<Ty<I>>;
impl<I: Interner> Substitution<I> {
    #[verifier::external_body]
    pub fn iter(&self, interner: I) -> (r: ArgIter<'_, I>) ensures r.rest() == subst_args(*self) { unimplemented!() }
}
impl<'a, I: Interner> ArgIter<'a, I> {
    pub uninterp spec fn rest(self) -> Seq<GenericArg<I>>;
    /// `Iterator::last`
    #[verifier::external_body]
    pub fn last(self) -> (r: Option<&'a GenericArg<I>>)
        ensures match r { Some(a) => self.rest().len() > 0 && *a == self.rest().last(), None => self.rest().len() == 0 }
    { unimplemented!() }
    /// `Iterator::next` (not used by the pinned code)
    #[verifier::external_body]
    pub fn next(&mut self) -> (r: Option<&'a GenericArg<I>>)
        ensures match r { Some(a) => old(self).rest().len() > 0 && *a == old(self).rest().first() && final(self).rest() == old(self).rest().drop_first(), None => old(self).rest().len() == 0 }
    { unimplemented!() }
}
impl<I: Interner> GenericArg<I> {
    #[verifier::external_body]
    pub fn ty(&self, interner: I) -> (r: Option<&Ty<I>>)
        ensures match r { Some(t) => arg_ty(*self) == Some(*t), None => arg_ty(*self) is None }
    { unimplemented!() }
}
//@CLONE_EQ generics="I: Interner" type="Ty<I>"

/// `Some(t)` as the list `[t]`, `None` as the empty list
pub open spec fn opt_seq<T>(o: Option<T>) -> Seq<T> { match o { Some(x) => seq![x], None => Seq::<T>::empty() } }

// ------------------------------------------------------------- real functions
//@FN file=chalk-solve/src/clauses/builtin_traits/sized.rs fn=push_adt_sized_conditions contract=adt_sized path=builtin_traits::sized::push_adt_sized_conditions
//@FN file=chalk-solve/src/clauses/builtin_traits/sized.rs fn=push_tuple_sized_conditions contract=tuple_sized path=builtin_traits::sized::push_tuple_sized_conditions

//@CONTRACT adt_sized
    ensures
        final(builder).log() == old(builder).log().push(Pushed::NeedsImplFor(trait_ref, opt_seq(spec_last_field(adt_id, *substitution)))),
//@END
//@CONTRACT tuple_sized
    requires
        // invariant of `TyKind::Tuple(arity, substitution)`: `arity` type arguments
        subst_args(*substitution).len() == arity,
        forall|k: int| 0 <= k < arity ==> arg_ty(#[trigger] subst_args(*substitution)[k]) is Some,
    ensures
        arity == 0 ==> final(builder).log() == old(builder).log().push(Pushed::Fact(trait_ref)),
        arity > 0 ==> final(builder).log() == old(builder).log().push(
            Pushed::NeedsImplFor(trait_ref, seq![arg_ty(subst_args(*substitution).last())->0])),
//@END

} // verus!
fn main() {}
