// Unit V4 `solve_iteration_guard` — Verus.  C11: when the caller's continue-callback
// says "stop", one iteration of the recursive solver does no work and returns the
// weakest answer `Ambig(Unknown)`; otherwise the answer is exactly what the
// clause-based / simplification-based search returned.
use vstd::prelude::*;
verus! {

//@INCLUDE common/solution_prelude.rs

pub struct NoSolution;
pub type Fallible<T> = Result<T, NoSolution>;

macro_rules! abstract_ty {
    ($($n:ident),*) => { verus! { $(
        #[verifier::external_body]
        #[verifier::reject_recursive_types(I)]
        pub struct $n<I: Interner> { _p: core::marker::PhantomData<I> }
    )* } }
}
abstract_ty!(Goal, Environment, DomainGoal, VariableKinds, ProgramClauses, Goals, EqGoal, SubtypeGoal);
#[verifier::external_body]
pub struct Minimums { _p: () }
impl<I: Interner> HasInterner for Goal<I> { type Interner = I; }
impl<I: Interner> HasInterner for DomainGoal<I> { type Interner = I; }
impl<G: HasInterner> HasInterner for InEnvironment<G> { type Interner = G::Interner; }
//@CLONE_EQ generics="I: Interner" type="Goal<I>"
//@CLONE_EQ generics="I: Interner" type="DomainGoal<I>"
//@CLONE_EQ generics="I: Interner" type="Environment<I>"
//@CLONE_EQ generics="I: Interner" type="UCanonical<InEnvironment<Goal<I>>>"

//@TYPE file=chalk-ir/src/lib.rs kind=struct name=UCanonical attrs="#[verifier::reject_recursive_types(T)]"
//@TYPE file=chalk-ir/src/lib.rs kind=struct name=InEnvironment attrs="#[verifier::reject_recursive_types(G)]"
//@TYPE file=chalk-ir/src/lib.rs kind=enum name=QuantifierKind
//@TYPE file=chalk-ir/src/lib.rs kind=struct name=Binders attrs="#[verifier::reject_recursive_types(T)]"
//@TYPE file=chalk-ir/src/lib.rs kind=enum name=GoalData attrs="#[verifier::reject_recursive_types(I)]"
pub type UCanonicalGoal<I> = UCanonical<InEnvironment<Goal<I>>>;

pub uninterp spec fn goal_data<I: Interner>(g: Goal<I>) -> GoalData<I>;
impl<I: Interner> Goal<I> {
    #[verifier::external_body]
    pub fn data(&self, interner: I) -> (r: &GoalData<I>) ensures *r == goal_data(*self) { unimplemented!() }
}

pub trait SolveDatabase<I: Interner>: Sized {
    fn interner(&self) -> I;
}

/// the two search procedures, abstract: what they return is some function of the
/// solver state and the goal (uninterpreted), and they may update `minimums`
pub trait SolveIterationHelpers<I: Interner>: SolveDatabase<I> {
    spec fn spec_from_clauses(&self, g: UCanonical<InEnvironment<DomainGoal<I>>>) -> Fallible<Solution<I>>;
    spec fn spec_via_simplification(&self, g: UCanonicalGoal<I>) -> Fallible<Solution<I>>;
    fn solve_via_simplification(&mut self, canonical_goal: &UCanonicalGoal<I>, minimums: &mut Minimums, should_continue: impl std::ops::Fn() -> bool + Clone)
        -> (r: Fallible<Solution<I>>)
        ensures r == old(self).spec_via_simplification(*canonical_goal);
    fn solve_from_clauses(&mut self, canonical_goal: &UCanonical<InEnvironment<DomainGoal<I>>>, minimums: &mut Minimums, should_continue: impl std::ops::Fn() -> bool + Clone)
        -> (r: Fallible<Solution<I>>)
        ensures r == old(self).spec_from_clauses(*canonical_goal);
}

pub trait SolveIteration<I: Interner>: SolveIterationHelpers<I> {
//@FN file=chalk-recursive/src/solve.rs within="trait SolveIteration<I: Interner>: SolveDatabase<I>$" fn=solve_iteration contract=solve_iteration path=SolveIteration::solve_iteration
}

//@CONTRACT solve_iteration
    requires
        should_continue.requires(()),
    ensures
        // C11: an interrupted iteration yields the weakest answer and does no work
        (forall|b: bool| should_continue.ensures((), b) ==> !b) ==> {
            &&& r == Ok::<Solution<I>, NoSolution>(Solution::Ambig(Guidance::Unknown))
            &&& *final(minimums) == *old(minimums)
            &&& *final(self) == *old(self)
        },
        // and otherwise the answer is exactly the search's answer for this very goal
        (forall|b: bool| should_continue.ensures((), b) ==> b) ==> r == (match goal_data(canonical_goal.canonical.value.goal) {
            GoalData::DomainGoal(dg) => old(self).spec_from_clauses(UCanonical { universes: canonical_goal.universes,
                canonical: Canonical { binders: canonical_goal.canonical.binders,
                    value: InEnvironment { environment: canonical_goal.canonical.value.environment, goal: dg } } }),
            _ => old(self).spec_via_simplification(*canonical_goal),
        }),
//@END

} // verus!
fn main() {}
