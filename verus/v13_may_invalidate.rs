// Unit V13 `may_invalidate` — Verus.  C17: "the check that decides no future answer
// can change the guidance never wrongly says so".  `MayInvalidate::aggregate_tys(new,
// current) == false` must imply that `new` is an INSTANCE of `current` (so merging it
// into the guidance cannot generalize the guidance any further).  `ty_instance` below is
// the term-algebra definition of "instance of" for canonical forms (the variables of
// `current` are its bound variables) — a positive definition, not the code's match.
use vstd::prelude::*;
verus! {

pub trait Interner: Sized + Copy { type DefId: Copy; }
pub trait HasInterner { type Interner: Interner; }

macro_rules! abstract_ty {
    ($($n:ident),*) => { verus! { $(
        #[verifier::external_body]
        #[verifier::reject_recursive_types(I)]
        pub struct $n<I: Interner> { _p: core::marker::PhantomData<I> }
    )* } }
}
abstract_ty!(Ty, Substitution, GenericArg, Const, ConcreteConst, Lifetime, DynTy, FnPointer, AdtId, AssocTypeId, OpaqueTyId, FnDefId, ClosureId, CoroutineId, ForeignDefId);
#[verifier::external_body] pub struct Scalar { _p: () }
#[verifier::external_body] pub struct Mutability { _p: () }
#[verifier::external_body] pub struct InferenceVar { _p: () }
#[verifier::external_body] pub struct TyVariableKind { _p: () }
//@CLONE_EQ generics="" type="Scalar"
//@CLONE_EQ generics="" type="Mutability"
//@CLONE_EQ generics="I: Interner" type="ForeignDefId<I>"
//@CLONE_EQ generics="" type="PlaceholderIndex"
//@CLONE_EQ generics="I: Interner" type="Lifetime<I>"

// real definitions (extracted)
//@TYPE file=chalk-ir/src/lib.rs kind=struct name=UniverseIndex attrs="#[derive(Clone, Copy)]"
//@TYPE file=chalk-ir/src/lib.rs kind=struct name=PlaceholderIndex
//@TYPE file=chalk-ir/src/lib.rs kind=struct name=DebruijnIndex
//@TYPE file=chalk-ir/src/lib.rs kind=struct name=BoundVar
//@TYPE file=chalk-ir/src/lib.rs kind=struct name=ProjectionTy attrs="#[verifier::reject_recursive_types(I)]"
//@TYPE file=chalk-ir/src/lib.rs kind=struct name=OpaqueTy attrs="#[verifier::reject_recursive_types(I)]"
//@TYPE file=chalk-ir/src/lib.rs kind=enum name=AliasTy attrs="#[verifier::reject_recursive_types(I)]"
//@TYPE file=chalk-ir/src/lib.rs kind=enum name=TyKind attrs="#[verifier::reject_recursive_types(I)]"
//@TYPE file=chalk-ir/src/lib.rs kind=struct name=ConstData attrs="#[verifier::reject_recursive_types(I)]"
//@TYPE file=chalk-ir/src/lib.rs kind=enum name=ConstValue attrs="#[verifier::reject_recursive_types(I)]"
//@TYPE file=chalk-ir/src/lib.rs kind=enum name=GenericArgData attrs="#[verifier::reject_recursive_types(I)]"
//@TYPE file=chalk-engine/src/slg.rs kind=struct name=MayInvalidate attrs="#[verifier::reject_recursive_types(I)]"

// ---- abstract views
pub uninterp spec fn ty_kind<I: Interner>(t: Ty<I>) -> TyKind<I>;
pub uninterp spec fn ty_height<I: Interner>(t: Ty<I>) -> nat;
/// canonical forms contain no free inference variables ("unexpected free inference variable in may-invalidate")
pub uninterp spec fn ty_canonical<I: Interner>(t: Ty<I>) -> bool;
pub uninterp spec fn const_canonical<I: Interner>(c: Const<I>) -> bool;
/// argument lists: pairwise "instance of" (defined by aggregate_generic_args over the arguments; abstract here)
pub uninterp spec fn substs_instance<I: Interner>(new: Substitution<I>, cur: Substitution<I>) -> bool;
pub uninterp spec fn substs_canonical<I: Interner>(s: Substitution<I>) -> bool;
pub uninterp spec fn const_data<I: Interner>(c: Const<I>) -> ConstData<I>;
pub uninterp spec fn const_height<I: Interner>(c: Const<I>) -> nat;
/// the interner's notion of equal constant values (`ConcreteConst::const_eq`)
pub uninterp spec fn spec_const_eq<I: Interner>(a: ConcreteConst<I>, ty: Ty<I>, b: ConcreteConst<I>) -> bool;
impl<I: Interner> Const<I> {
    /// constants are finite trees too; a canonical constant has a canonical type and is not an inference variable
    #[verifier::external_body]
    pub fn data(&self, interner: I) -> (r: &ConstData<I>)
        ensures *r == const_data(*self), ty_height(r.ty) < const_height(*self),
            const_canonical(*self) ==> ty_canonical(r.ty) && !(r.value is InferenceVar),
    { unimplemented!() }
}
pub uninterp spec fn arg_data<I: Interner>(a: GenericArg<I>) -> GenericArgData<I>;
pub uninterp spec fn arg_canonical<I: Interner>(a: GenericArg<I>) -> bool;
impl<I: Interner> GenericArg<I> {
    /// a canonical argument holds a canonical type / constant
    #[verifier::external_body]
    pub fn data(&self, interner: I) -> (r: &GenericArgData<I>)
        ensures *r == arg_data(*self),
            arg_canonical(*self) ==> match *r {
                GenericArgData::Ty(t) => ty_canonical(t),
                GenericArgData::Const(c) => const_canonical(c),
                GenericArgData::Lifetime(_) => true,
            },
    { unimplemented!() }
}
/// one argument of a new answer is an instance of the guidance's argument
pub open spec fn arg_instance<I: Interner>(new: GenericArg<I>, cur: GenericArg<I>) -> bool {
    match (arg_data(new), arg_data(cur)) {
        (GenericArgData::Ty(a), GenericArgData::Ty(b)) => ty_instance(a, b),
        (GenericArgData::Const(c), GenericArgData::Const(d)) => const_instance(c, d),
        // the pinned check never claims anything about lifetimes; the same lifetime is trivially an instance of itself
        (GenericArgData::Lifetime(a), GenericArgData::Lifetime(b)) => a == b,
        _ => false,
    }
}
/// both arguments are of the same kind (the code panics otherwise: "mismatched parameter kinds")
pub open spec fn same_kind<I: Interner>(a: GenericArg<I>, b: GenericArg<I>) -> bool {
    match (arg_data(a), arg_data(b)) {
        (GenericArgData::Ty(_), GenericArgData::Ty(_)) => true,
        (GenericArgData::Lifetime(_), GenericArgData::Lifetime(_)) => true,
        (GenericArgData::Const(_), GenericArgData::Const(_)) => true,
        _ => false,
    }
}
impl<I: Interner> ConcreteConst<I> {
    #[verifier::external_body]
    pub fn const_eq(&self, ty: &Ty<I>, other: &ConcreteConst<I>, interner: I) -> (r: bool)
        ensures r == spec_const_eq(*self, *ty, *other)
    { unimplemented!() }
}

impl<I: Interner> Ty<I> {
    /// types are finite trees; children of a canonical type are canonical and its head is not an inference variable
    #[verifier::external_body]
    pub fn kind(&self, interner: I) -> (r: &TyKind<I>)
        ensures
            *r == ty_kind(*self),
            match *r {
                TyKind::Slice(t) | TyKind::Raw(_, t) | TyKind::Ref(_, _, t) => ty_height(t) < ty_height(*self),
                TyKind::Array(t, c) => ty_height(t) < ty_height(*self) && const_height(c) < ty_height(*self),
                _ => true,
            },
            ty_canonical(*self) ==> match *r {
                TyKind::InferenceVar(..) => false,
                TyKind::Slice(t) | TyKind::Raw(_, t) | TyKind::Ref(_, _, t) => ty_canonical(t),
                TyKind::Array(t, c) => ty_canonical(t) && const_canonical(c),
                TyKind::Adt(_, s) | TyKind::AssociatedType(_, s) | TyKind::Tuple(_, s) | TyKind::OpaqueType(_, s) | TyKind::FnDef(_, s)
                | TyKind::Closure(_, s) | TyKind::Coroutine(_, s) | TyKind::CoroutineWitness(_, s) => substs_canonical(s),
                TyKind::Alias(AliasTy::Projection(p)) => substs_canonical(p.substitution),
                TyKind::Alias(AliasTy::Opaque(o)) => substs_canonical(o.substitution),
                _ => true,
            },
    { unimplemented!() }
}

// ------------------------------------------------------- specification level
pub open spec fn ty_instance<I: Interner>(new: Ty<I>, cur: Ty<I>) -> bool
    decreases ty_height(cur)
{
    match (ty_kind(new), ty_kind(cur)) {
        // a variable of the current guidance is instantiated by anything
        (_, TyKind::BoundVar(_)) => true,
        (TyKind::Placeholder(p), TyKind::Placeholder(q)) => p == q,
        (TyKind::Alias(AliasTy::Projection(a)), TyKind::Alias(AliasTy::Projection(b))) =>
            a.associated_ty_id == b.associated_ty_id && substs_instance(a.substitution, b.substitution),
        (TyKind::Alias(AliasTy::Opaque(a)), TyKind::Alias(AliasTy::Opaque(b))) =>
            a.opaque_ty_id == b.opaque_ty_id && substs_instance(a.substitution, b.substitution),
        (TyKind::Adt(i, s), TyKind::Adt(j, t)) => i == j && substs_instance(s, t),
        (TyKind::AssociatedType(i, s), TyKind::AssociatedType(j, t)) => i == j && substs_instance(s, t),
        (TyKind::Tuple(i, s), TyKind::Tuple(j, t)) => i == j && substs_instance(s, t),
        (TyKind::OpaqueType(i, s), TyKind::OpaqueType(j, t)) => i == j && substs_instance(s, t),
        (TyKind::FnDef(i, s), TyKind::FnDef(j, t)) => i == j && substs_instance(s, t),
        (TyKind::Closure(i, s), TyKind::Closure(j, t)) => i == j && substs_instance(s, t),
        (TyKind::Coroutine(i, s), TyKind::Coroutine(j, t)) => i == j && substs_instance(s, t),
        (TyKind::CoroutineWitness(i, s), TyKind::CoroutineWitness(j, t)) => i == j && substs_instance(s, t),
        (TyKind::Scalar(a), TyKind::Scalar(b)) => a == b,
        (TyKind::Str, TyKind::Str) | (TyKind::Never, TyKind::Never) | (TyKind::Error, TyKind::Error) => true,
        (TyKind::Foreign(a), TyKind::Foreign(b)) => a == b,
        (TyKind::Slice(a), TyKind::Slice(b)) => ty_height(b) < ty_height(cur) && ty_instance(a, b),
        (TyKind::Raw(m, a), TyKind::Raw(n, b)) => m == n && ty_height(b) < ty_height(cur) && ty_instance(a, b),
        // (lifetimes: the check is always conservative about them, so nothing is required here)
        (TyKind::Ref(m, _, a), TyKind::Ref(n, _, b)) => m == n && ty_height(b) < ty_height(cur) && ty_instance(a, b),
        (TyKind::Array(a, c), TyKind::Array(b, d)) => ty_height(b) < ty_height(cur) && ty_instance(a, b) && const_height(d) < ty_height(cur) && const_instance(c, d),
        _ => false,
    }
}
/// a constant of a new answer is an instance of the guidance's constant: the types are, and the guidance has a variable
/// there, or both are the same placeholder, or both are concrete values the interner calls equal
pub open spec fn const_instance<I: Interner>(new: Const<I>, cur: Const<I>) -> bool
    decreases const_height(cur)
{
    &&& ty_height(const_data(cur).ty) < const_height(cur) && ty_instance(const_data(new).ty, const_data(cur).ty)
    &&& match (const_data(new).value, const_data(cur).value) {
        (_, ConstValue::BoundVar(_)) => true,
        (ConstValue::Placeholder(p), ConstValue::Placeholder(q)) => p == q,
        (ConstValue::Concrete(a), ConstValue::Concrete(b)) => spec_const_eq(a, const_data(new).ty, b),
        _ => false,
    }
}

// ------------------------------------------------------------- real functions
impl<I: Interner> MayInvalidate<I> {
//@FN file=chalk-engine/src/slg.rs within="^impl<I: Interner> MayInvalidate<I>$" fn=aggregate_generic_args contract=aggregate_generic_args path=MayInvalidate::aggregate_generic_args
//@FN file=chalk-engine/src/slg.rs within="^impl<I: Interner> MayInvalidate<I>$" fn=aggregate_tys contract=aggregate_tys path=MayInvalidate::aggregate_tys
//@FN file=chalk-engine/src/slg.rs within="^impl<I: Interner> MayInvalidate<I>$" fn=aggregate_lifetimes anonparams=name contract=aggregate_lifetimes path=MayInvalidate::aggregate_lifetimes
//@FN file=chalk-engine/src/slg.rs within="^impl<I: Interner> MayInvalidate<I>$" fn=aggregate_placeholders contract=aggregate_placeholders path=MayInvalidate::aggregate_placeholders
//@FN file=chalk-engine/src/slg.rs within="^impl<I: Interner> MayInvalidate<I>$" fn=aggregate_projection_tys contract=aggregate_projection_tys path=MayInvalidate::aggregate_projection_tys
//@FN file=chalk-engine/src/slg.rs within="^impl<I: Interner> MayInvalidate<I>$" fn=aggregate_opaque_ty_tys contract=aggregate_opaque_ty_tys path=MayInvalidate::aggregate_opaque_ty_tys

    /// callee contract (iterator + closure code, not verified): `false` only if the names are
    /// equal and every pair of arguments is "instance of"
    #[verifier::external_body]
    fn aggregate_name_and_substs<N>(&mut self, new_name: N, new_substitution: &Substitution<I>, current_name: N, current_substitution: &Substitution<I>) -> (r: bool)
        requires substs_canonical(*new_substitution), substs_canonical(*current_substitution),
        ensures !r ==> new_name == current_name && substs_instance(*new_substitution, *current_substitution),
    { unimplemented!() }

//@FN file=chalk-engine/src/slg.rs within="^impl<I: Interner> MayInvalidate<I>$" fn=aggregate_consts contract=aggregate_consts path=MayInvalidate::aggregate_consts
}

//@CONTRACT aggregate_tys
    requires
        ty_canonical(*new), ty_canonical(*current),
    ensures
        // C17: "no future answer can change the guidance" is only ever claimed for instances
        !r ==> ty_instance(*new, *current),
    decreases ty_height(*current),
//@END
//@CONTRACT aggregate_generic_args
    requires arg_canonical(*new), arg_canonical(*current), same_kind(*new, *current),
    ensures !r ==> arg_instance(*new, *current),
//@END
//@CONTRACT aggregate_lifetimes
    // "cannot invalidate" may only be claimed for one and the same lifetime (the pinned code never claims it)
    ensures !r ==> *_p0 == *_p1,
//@END
//@CONTRACT aggregate_consts
    requires const_canonical(*new), const_canonical(*current),
    ensures !r ==> const_instance(*new, *current),
    decreases const_height(*current),
//@END
//@CONTRACT aggregate_placeholders
    ensures r == (*new != *current),
//@END
//@CONTRACT aggregate_projection_tys
    requires substs_canonical(new.substitution), substs_canonical(current.substitution),
    ensures !r ==> new.associated_ty_id == current.associated_ty_id && substs_instance(new.substitution, current.substitution),
//@END
//@CONTRACT aggregate_opaque_ty_tys
    requires substs_canonical(new.substitution), substs_canonical(current.substitution),
    ensures !r ==> new.opaque_ty_id == current.opaque_ty_id && substs_instance(new.substitution, current.substitution),
//@END

} // verus!
impl<I: Interner> core::fmt::Debug for GenericArg<I> {
    fn fmt(&self, _f: &mut core::fmt::Formatter<'_>) -> core::fmt::Result { Ok(()) }
}
impl<I: Interner> core::fmt::Debug for Const<I> {
    fn fmt(&self, _f: &mut core::fmt::Formatter<'_>) -> core::fmt::Result { Ok(()) }
}
impl<I: Interner> core::fmt::Debug for Ty<I> {
    fn fmt(&self, _f: &mut core::fmt::Formatter<'_>) -> core::fmt::Result { Ok(()) }
}
fn main() {}
