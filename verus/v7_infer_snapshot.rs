// Unit V7 `infer_snapshot` — Verus.  C15: a failed unification leaves the
// inference table exactly as it was.
//
// Modular argument: `InferenceTable::relate` is checked against the contracts
// of `snapshot` / `rollback_to` / `commit` (each proved on its own extracted
// body against the assumed contract of `ena`) and against a *havoc* contract
// for `Unifier::relate` (anything may happen to the table in between, except
// that the unifier leaves ena's stack of open snapshots balanced).
use vstd::prelude::*;
verus! {

// ------------------------------------------------------------------ prelude
pub trait Interner: Sized + Copy {}
pub trait HasInterner { type Interner: Interner; }
pub trait UnificationDatabase<I: Interner> {}
pub trait Zip<I: Interner> {}

#[verifier::external_body]
#[verifier::reject_recursive_types(I)]
pub struct EnaVariable<I: Interner> { _p: core::marker::PhantomData<I> }
//@CLONE_EQ generics="I: Interner" type="EnaVariable<I>"
impl<I: Interner> Copy for EnaVariable<I> {}

#[verifier::external_body]
#[verifier::reject_recursive_types(I)]
pub struct Environment<I: Interner> { _p: core::marker::PhantomData<I> }
#[verifier::external_body]
#[verifier::reject_recursive_types(I)]
pub struct Goal<I: Interner> { _p: core::marker::PhantomData<I> }
#[verifier::external_body]
#[verifier::reject_recursive_types(G)]
pub struct InEnvironment<G> { _p: core::marker::PhantomData<G> }

pub struct NoSolution;
pub type Fallible<T> = Result<T, NoSolution>;

// the real `Variance` and `UniverseIndex` definitions
//@TYPE file=chalk-ir/src/lib.rs kind=enum name=Variance attrs="#[derive(Clone, Copy)]"
//@TYPE file=chalk-ir/src/lib.rs kind=struct name=UniverseIndex attrs="#[derive(Clone, Copy)]"

/// Abstract contents of ena's union-find table: the value and root of every
/// variable.  Nothing is known about it except equality.
#[verifier::external_body]
pub struct EnaContents { _p: core::marker::PhantomData<()> }

// ---- assumed contract of the `ena` dependency (snapshot vector discipline)
pub mod ena { pub mod unify {
    use vstd::prelude::*;
    use super::super::EnaContents;
    #[verifier::external_body]
    #[verifier::reject_recursive_types(K)]
    pub struct InPlaceUnificationTable<K> { _p: core::marker::PhantomData<K> }
    #[verifier::external_body]
    #[verifier::reject_recursive_types(K)]
    pub struct InPlace<K> { _p: core::marker::PhantomData<K> }
    #[verifier::external_body]
    #[verifier::reject_recursive_types(S)]
    pub struct Snapshot<S> { _p: core::marker::PhantomData<S> }

    impl<S> Snapshot<S> {
        /// number of snapshots that were open when this one was taken
        pub uninterp spec fn depth(&self) -> nat;
    }
    impl<K> InPlaceUnificationTable<K> {
        pub uninterp spec fn cur(&self) -> EnaContents;
        pub uninterp spec fn open(&self) -> Seq<EnaContents>;

        #[verifier::external_body]
        pub fn snapshot(&mut self) -> (s: Snapshot<InPlace<K>>)
            ensures
                final(self).cur() == old(self).cur(),
                final(self).open() == old(self).open().push(old(self).cur()),
                s.depth() == old(self).open().len(),
        { unimplemented!() }

        #[verifier::external_body]
        pub fn rollback_to(&mut self, s: Snapshot<InPlace<K>>)
            requires old(self).open().len() == s.depth() + 1,
            ensures
                final(self).cur() == old(self).open()[s.depth() as int],
                final(self).open() == old(self).open().drop_last(),
        { unimplemented!() }

        #[verifier::external_body]
        pub fn commit(&mut self, s: Snapshot<InPlace<K>>)
            requires old(self).open().len() == s.depth() + 1,
            ensures
                final(self).cur() == old(self).cur(),
                final(self).open() == old(self).open().drop_last(),
        { unimplemented!() }
    }
}}

// ------------------------------------------- real type definitions (extracted)
//@TYPE file=chalk-solve/src/infer.rs kind=struct name=InferenceTable attrs="#[verifier::reject_recursive_types(I)]"
//@TYPE file=chalk-solve/src/infer.rs kind=struct name=InferenceSnapshot attrs="#[verifier::reject_recursive_types(I)]"
//@TYPE file=chalk-solve/src/infer/unify.rs kind=struct name=Unifier attrs="#[verifier::reject_recursive_types(I)]"
//@TYPE file=chalk-solve/src/infer/unify.rs kind=struct name=RelationResult attrs="#[verifier::reject_recursive_types(I)]"

// ------------------------------------------------------- specification level
// (fields of the real structs are private; the abstract view goes through
// closed spec accessors)
impl<I: Interner> InferenceTable<I> {
    pub closed spec fn cur(self) -> EnaContents { self.unify.cur() }
    pub closed spec fn open(self) -> Seq<EnaContents> { self.unify.open() }
    pub closed spec fn varseq(self) -> Seq<EnaVariable<I>> { self.vars@ }
    pub closed spec fn maxu(self) -> UniverseIndex { self.max_universe }
}
impl<I: Interner> InferenceSnapshot<I> {
    pub closed spec fn depth(self) -> nat { self.unify_snapshot.depth() }
    pub closed spec fn varseq(self) -> Seq<EnaVariable<I>> { self.vars@ }
    pub closed spec fn maxu(self) -> UniverseIndex { self.max_universe }
}
impl<'t, I: Interner> Unifier<'t, I> {
    pub closed spec fn tbl(self) -> &'t mut InferenceTable<I> { self.table }
}

/// The observable state of an inference table (C15: "every unknown exactly as it was").
pub open spec fn same_state<I: Interner>(a: InferenceTable<I>, b: InferenceTable<I>) -> bool {
    &&& a.cur() == b.cur()
    &&& a.varseq() =~= b.varseq()
    &&& a.maxu() == b.maxu()
}

/// A snapshot value records the state it was taken in.
pub open spec fn snapshot_of<I: Interner>(s: InferenceSnapshot<I>, t: InferenceTable<I>) -> bool {
    &&& s.depth() == t.open().len()
    &&& s.varseq() =~= t.varseq()
    &&& s.maxu() == t.maxu()
}

/// `s` is the innermost open snapshot of `t`.
pub open spec fn innermost<I: Interner>(s: InferenceSnapshot<I>, t: InferenceTable<I>) -> bool {
    t.open().len() == s.depth() + 1
}

// ------------------------------------------------------------- real functions
impl<I: Interner> InferenceTable<I> {
//@FN file=chalk-solve/src/infer.rs within="^impl<I: Interner> InferenceTable<I>$" fn=snapshot contract=snapshot path=InferenceTable::snapshot
//@FN file=chalk-solve/src/infer.rs within="^impl<I: Interner> InferenceTable<I>$" fn=rollback_to contract=rollback_to path=InferenceTable::rollback_to
//@FN file=chalk-solve/src/infer.rs within="^impl<I: Interner> InferenceTable<I>$" fn=commit contract=commit path=InferenceTable::commit
//@FN file=chalk-solve/src/infer/unify.rs within="^impl<I: Interner> InferenceTable<I>$" fn=relate contract=relate path=InferenceTable::relate
}

impl<'t, I: Interner> Unifier<'t, I> {
//@FN file=chalk-solve/src/infer/unify.rs within="^impl<'t, I: Interner> Unifier<'t, I>$" fn=new contract=unifier_new path=Unifier::new

    /// HAVOC contract for the whole unification algorithm: it may do anything to
    /// the table; it only has to leave ena's stack of open snapshots as it found it.
    #[verifier::external_body]
    fn relate<T>(self, variance: Variance, a: &T, b: &T) -> (r: Fallible<RelationResult<I>>)
        where T: ?Sized + Zip<I>
        ensures final(self.tbl()).open() == old(self.tbl()).open(),
    { unimplemented!() }
}

//@CONTRACT snapshot
    ensures
        same_state(*final(self), *old(self)),
        final(self).open() == old(self).open().push(old(self).cur()),
        snapshot_of(r, *old(self)),
//@END
//@CONTRACT rollback_to
    requires
        innermost(snapshot, *old(self)),
    ensures
        final(self).cur() == old(self).open()[snapshot.depth() as int],
        final(self).varseq() =~= snapshot.varseq(),
        final(self).maxu() == snapshot.maxu(),
        final(self).open() == old(self).open().drop_last(),
//@END
//@CONTRACT commit
    requires
        innermost(snapshot, *old(self)),
    ensures
        same_state(*final(self), *old(self)),
        final(self).open() == old(self).open().drop_last(),
//@END
//@CONTRACT unifier_new
    ensures
        *r.tbl() == *old(table),
        *final(r.tbl()) == *final(table),
//@END
//@CONTRACT relate
    ensures
        // C15: failure leaves every unknown exactly as it was
        r is Err ==> same_state(*final(self), *old(self)),
        // in both cases the snapshot taken here has been closed again
        final(self).open() =~= old(self).open(),
//@END

// ---------------------------------------------------- lemmas over the contracts
/// snapshot(); <anything that keeps the stack balanced>; rollback_to(s)  is the identity on the state.
pub proof fn lemma_rollback_restores<I: Interner>(t0: InferenceTable<I>, t1: InferenceTable<I>, t2: InferenceTable<I>,
                                                   t3: InferenceTable<I>, s: InferenceSnapshot<I>)
    requires
        // t0 --snapshot--> t1 (contract of snapshot)
        same_state(t1, t0), t1.open() == t0.open().push(t0.cur()), snapshot_of(s, t0),
        // t1 --anything balanced--> t2
        t2.open() == t1.open(),
        // t2 --rollback_to(s)--> t3 (contract of rollback_to)
        innermost(s, t2),
        t3.cur() == t2.open()[s.depth() as int],
        t3.varseq() =~= s.varseq(), t3.maxu() == s.maxu(),
        t3.open() == t2.open().drop_last(),
    ensures
        same_state(t3, t0),
        t3.open() =~= t0.open(),
{
}

} // verus!
fn main() {}
