// Unit V21 `canonicalizer_leaves` — Verus.  C16 (first sentence): what the
// canonicalizer does at the leaves of a value.
//   unbound unknown ?Y (any kind) : replaced by the bound variable ^0.i (shifted under the binders
//                                   already entered) where i is the position of ?Y's union-find ROOT in
//                                   `free_vars` — found if the class was met before, appended (with the
//                                   unknown's kind) if this is its first occurrence.  So unknowns that
//                                   were unified share one index, distinct classes never do, and indices
//                                   follow first occurrence.
//   bound unknown                 : its value is canonicalized instead (generic fold, abstract)
//   placeholder                   : kept; its universe is folded into `max_universe`
// `Canonicalizer::add` itself (iterator `position` + a closure that captures `&mut self`) is outside
// Verus; its contract below is ASSUMED and is exactly "index of the first entry with this variable,
// appending when there is none".
use vstd::prelude::*;
verus! {

pub trait Interner: Sized + Copy { type DefId: Copy; }
pub trait HasInterner { type Interner: Interner; }

macro_rules! abstract_ty {
    ($($n:ident),*) => { verus! { $(
        #[verifier::external_body]
        #[verifier::reject_recursive_types(I)]
        pub struct $n<I: Interner> { _p: core::marker::PhantomData<I> }
    )* } }
}
abstract_ty!(Ty, Substitution, Const, Lifetime, GenericArg, DynTy, AliasTy, FnPointer, AdtId, AssocTypeId, OpaqueTyId, FnDefId, ClosureId, CoroutineId, ForeignDefId, ConcreteConst, EnaVariable, EnaTable);
#[verifier::external_body] pub struct Scalar { _p: () }
#[verifier::external_body] pub struct Mutability { _p: () }
#[verifier::external_body] pub struct InferenceVar { _p: () }
impl Copy for InferenceVar {}
impl Clone for InferenceVar { #[verifier::external_body] fn clone(&self) -> (r: Self) ensures r == *self { unimplemented!() } }
// chalk-ir's `Void` is an empty enum (the Phantom variant is uninhabited); Verus rejects empty
// datatypes, so it is an opaque struct here — the unit never relies on inhabitedness.
#[verifier::external_body]
pub struct Void { _p: () }
use core::marker::PhantomData;
impl<I: Interner> Copy for EnaVariable<I> {}
//@CLONE_EQ generics="I: Interner" type="EnaVariable<I>"
//@CLONE_EQ generics="I: Interner" type="Ty<I>"
//@CLONE_EQ generics="I: Interner" type="Const<I>"
//@CLONE_EQ generics="I: Interner" type="Lifetime<I>"

// (the real struct has a private field, which Verus does not allow in a pub const; same layout)
#[derive(Clone, Copy)]
pub struct DebruijnIndex { pub depth: u32 }

// real definitions (extracted)
//@TYPE file=chalk-ir/src/lib.rs kind=struct name=BoundVar attrs="#[derive(Clone, Copy)]"
//@TYPE file=chalk-ir/src/lib.rs kind=struct name=UniverseIndex attrs="#[derive(Clone, Copy)]"
//@TYPE file=chalk-ir/src/lib.rs kind=struct name=PlaceholderIndex attrs="#[derive(Clone, Copy)]"
//@TYPE file=chalk-ir/src/lib.rs kind=enum name=TyVariableKind attrs="#[derive(Clone, Copy)]"
//@TYPE file=chalk-ir/src/lib.rs kind=enum name=VariableKind attrs="#[verifier::reject_recursive_types(I)]"
//@TYPE file=chalk-ir/src/lib.rs kind=struct name=WithKind attrs="#[verifier::reject_recursive_types(I)] #[verifier::reject_recursive_types(T)]"
//@TYPE file=chalk-ir/src/lib.rs kind=enum name=TyKind attrs="#[verifier::reject_recursive_types(I)]"
//@TYPE file=chalk-ir/src/lib.rs kind=enum name=LifetimeData attrs="#[verifier::reject_recursive_types(I)]"
//@TYPE file=chalk-ir/src/lib.rs kind=struct name=ConstData attrs="#[verifier::reject_recursive_types(I)]"
//@TYPE file=chalk-ir/src/lib.rs kind=enum name=ConstValue attrs="#[verifier::reject_recursive_types(I)]"
//@TYPE file=chalk-solve/src/infer/var.rs kind=enum name=InferenceValue attrs="#[verifier::reject_recursive_types(I)]"
//@TYPE file=chalk-solve/src/infer/canonicalize.rs kind=struct name=Canonicalizer attrs="#[verifier::reject_recursive_types(I)]"
pub type ParameterEnaVariable<I> = WithKind<I, EnaVariable<I>>;

impl DebruijnIndex {
    pub const INNERMOST: DebruijnIndex = DebruijnIndex { depth: 0 };
//@FN file=chalk-ir/src/lib.rs within="^impl DebruijnIndex$" fn=new contract=db_new path=DebruijnIndex::new
//@FN file=chalk-ir/src/lib.rs within="^impl DebruijnIndex$" fn=depth contract=db_depth path=DebruijnIndex::depth
//@FN file=chalk-ir/src/lib.rs within="^impl DebruijnIndex$" fn=shifted_in_from contract=db_shift path=DebruijnIndex::shifted_in_from
}
impl BoundVar {
//@FN file=chalk-ir/src/lib.rs within="^impl BoundVar$" fn=new contract=bv_new path=BoundVar::new
//@FN file=chalk-ir/src/lib.rs within="^impl BoundVar$" fn=shifted_in_from contract=bv_shift path=BoundVar::shifted_in_from
//@FN file=chalk-ir/src/lib.rs within="^impl BoundVar$" fn=to_const contract=bv_to_const path=BoundVar::to_const
}
impl<I: Interner, T> WithKind<I, T> {
    pub closed spec fn val(self) -> T { self.value }
    pub closed spec fn spec_kind(self) -> VariableKind<I> { self.kind }
    pub closed spec fn mk(kind: VariableKind<I>, value: T) -> Self { WithKind { kind, value } }
//@FN file=chalk-ir/src/lib.rs within="^impl<I: Interner, T> WithKind<I, T>$" fn=new contract=wk_new path=WithKind::new
//@FN file=chalk-ir/src/lib.rs within="^impl<I: Interner, T> WithKind<I, T>$" fn=skip_kind contract=wk_skip path=WithKind::skip_kind
}
//@CONTRACT db_new
    ensures r.depth == depth,
//@END
//@CONTRACT db_depth
    ensures r == self.depth,
//@END
//@CONTRACT db_shift
    requires self.depth as int + outer_binder.depth as int <= u32::MAX as int,
    ensures r.depth as int == self.depth as int + outer_binder.depth as int,
//@END
//@CONTRACT bv_new
    ensures r.debruijn == debruijn, r.index == index,
//@END
//@CONTRACT bv_shift
    requires self.debruijn.depth as int + outer_binder.depth as int <= u32::MAX as int,
    ensures r.index == self.index, r.debruijn.depth as int == self.debruijn.depth as int + outer_binder.depth as int,
//@END
//@CONTRACT bv_to_const
    ensures const_data(r) == (ConstData { ty, value: ConstValue::<I>::BoundVar(self) }),
//@END
//@CONTRACT wk_new
    ensures r == Self::mk(kind, value),
//@END
//@CONTRACT wk_skip
    ensures *r == self.val(),
//@END

// ---- interning: abstract, injective by construction (`kind`/`data` give back what was interned)
pub uninterp spec fn ty_kind<I: Interner>(t: Ty<I>) -> TyKind<I>;
pub uninterp spec fn lifetime_data<I: Interner>(l: Lifetime<I>) -> LifetimeData<I>;
pub uninterp spec fn const_data<I: Interner>(c: Const<I>) -> ConstData<I>;
impl<I: Interner> TyKind<I> {
    #[verifier::external_body]
    pub fn intern(self, interner: I) -> (r: Ty<I>) ensures ty_kind(r) == self { unimplemented!() }
}
impl<I: Interner> LifetimeData<I> {
    #[verifier::external_body]
    pub fn intern(self, interner: I) -> (r: Lifetime<I>) ensures lifetime_data(r) == self { unimplemented!() }
}
impl<I: Interner> ConstData<I> {
    #[verifier::external_body]
    pub fn intern(self, interner: I) -> (r: Const<I>) ensures const_data(r) == self { unimplemented!() }
}
pub uninterp spec fn ena_of<I: Interner>(v: InferenceVar) -> EnaVariable<I>;
pub uninterp spec fn ty_of_placeholder<I: Interner>(p: PlaceholderIndex) -> Ty<I>;
pub uninterp spec fn lifetime_of_placeholder<I: Interner>(p: PlaceholderIndex) -> Lifetime<I>;
pub uninterp spec fn const_of_placeholder<I: Interner>(p: PlaceholderIndex, ty: Ty<I>) -> Const<I>;
impl<I: Interner> From<InferenceVar> for EnaVariable<I> {
    #[verifier::external_body]
    fn from(var: InferenceVar) -> (r: Self) ensures r == ena_of::<I>(var) { unimplemented!() }
}
impl PlaceholderIndex {
    #[verifier::external_body]
    pub fn to_ty<I: Interner>(self, interner: I) -> (r: Ty<I>) ensures r == ty_of_placeholder::<I>(self) { unimplemented!() }
    #[verifier::external_body]
    pub fn to_lifetime<I: Interner>(self, interner: I) -> (r: Lifetime<I>) ensures r == lifetime_of_placeholder::<I>(self) { unimplemented!() }
    #[verifier::external_body]
    pub fn to_const<I: Interner>(self, interner: I, ty: Ty<I>) -> (r: Const<I>) ensures r == const_of_placeholder::<I>(self, ty) { unimplemented!() }
}
impl<I: Interner> GenericArg<I> {
    #[verifier::external_body]
    pub fn assert_ty_ref(&self, interner: I) -> &Ty<I> { unimplemented!() }
    #[verifier::external_body]
    pub fn assert_lifetime_ref(&self, interner: I) -> &Lifetime<I> { unimplemented!() }
    #[verifier::external_body]
    pub fn assert_const_ref(&self, interner: I) -> &Const<I> { unimplemented!() }
}

// `#[derive(PartialOrd, Ord)]` on UniverseIndex { counter }: the order of the counter (unit K1)
impl vstd::std_specs::cmp::PartialEqSpecImpl for UniverseIndex {
    open spec fn obeys_eq_spec() -> bool { true }
    open spec fn eq_spec(&self, other: &Self) -> bool { self.counter == other.counter }
}
impl PartialEq for UniverseIndex { #[verifier::external_body] fn eq(&self, other: &Self) -> bool { unimplemented!() } }
impl Eq for UniverseIndex {}
impl vstd::std_specs::cmp::PartialOrdSpecImpl for UniverseIndex {
    open spec fn obeys_partial_cmp_spec() -> bool { true }
    open spec fn partial_cmp_spec(&self, other: &Self) -> Option<core::cmp::Ordering> {
        if self.counter < other.counter { Some(core::cmp::Ordering::Less) } else if self.counter == other.counter { Some(core::cmp::Ordering::Equal) } else { Some(core::cmp::Ordering::Greater) }
    }
}
impl PartialOrd for UniverseIndex { #[verifier::external_body] fn partial_cmp(&self, other: &Self) -> Option<core::cmp::Ordering> { unimplemented!() } }
impl vstd::std_specs::cmp::OrdSpecImpl for UniverseIndex {
    open spec fn obeys_cmp_spec() -> bool { true }
    open spec fn cmp_spec(&self, other: &Self) -> core::cmp::Ordering {
        if self.counter < other.counter { core::cmp::Ordering::Less } else if self.counter == other.counter { core::cmp::Ordering::Equal } else { core::cmp::Ordering::Greater }
    }
}
impl Ord for UniverseIndex { #[verifier::external_body] fn cmp(&self, other: &Self) -> core::cmp::Ordering { unimplemented!() } }
/// std::cmp::max: "Returns the second argument if the comparison determines them to be equal."
pub assume_specification<T: Ord>[ std::cmp::max ](a: T, b: T) -> (r: T)
    ensures T::obeys_cmp_spec() ==> r == (if a.cmp_spec(&b) is Greater { a } else { b });
use std::cmp::max;
use vstd::std_specs::cmp::OrdSpec;

/// union-find view of ena's table (as in unit V8)
#[verifier::reject_recursive_types(I)]
pub struct TableView<I: Interner> {
    pub root: Map<EnaVariable<I>, EnaVariable<I>>,
    pub value: Map<EnaVariable<I>, InferenceValue<I>>,
}
impl<I: Interner> EnaTable<I> {
    pub uninterp spec fn view(&self) -> TableView<I>;
    #[verifier::external_body]
    pub fn probe_value(&mut self, v: EnaVariable<I>) -> (r: InferenceValue<I>)
        ensures final(self).view() == old(self).view(), r == old(self).view().value[old(self).view().root[v]]
    { unimplemented!() }
    /// ena: the representative of the variable's class (`find<K1: Into<K>>`)
    #[verifier::external_body]
    pub fn find<K1: IntoEna<I>>(&mut self, a: K1) -> (r: EnaVariable<I>)
        ensures final(self).view() == old(self).view(), r == old(self).view().root[a.spec_ena()]
    { unimplemented!() }
}
/// stands for ena's `K1: Into<EnaVariable<I>>` bound
pub trait IntoEna<I: Interner>: Sized { spec fn spec_ena(self) -> EnaVariable<I>; }
impl<I: Interner> IntoEna<I> for InferenceVar { open spec fn spec_ena(self) -> EnaVariable<I> { ena_of::<I>(self) } }
impl<I: Interner> IntoEna<I> for EnaVariable<I> { open spec fn spec_ena(self) -> EnaVariable<I> { self } }
#[verifier::reject_recursive_types(I)]
pub struct InferenceTable<I: Interner> { pub unify: EnaTable<I> }
impl<I: Interner> InferenceTable<I> {
//@FN file=chalk-solve/src/infer.rs within="^impl<I: Interner> InferenceTable<I>$" fn=probe_var contract=probe_var path=InferenceTable::probe_var
}
//@CONTRACT probe_var
    ensures
        final(self).unify.view() == old(self).unify.view(),
        r == match old(self).unify.view().value[old(self).unify.view().root[ena_of::<I>(leaf)]] {
            InferenceValue::Unbound(_) => None::<GenericArg<I>>,
            InferenceValue::Bound(val) => Some(val),
        },
//@END

// ------------------------------------------------------- specification level
/// position of the first entry of `fv` that stands for variable `v` (`fv.len()` if there is none)
pub open spec fn first_index<I: Interner>(fv: Seq<ParameterEnaVariable<I>>, v: EnaVariable<I>) -> int
    decreases fv.len()
{
    if fv.len() == 0 { 0 } else if fv[0].val() == v { 0 } else { 1 + first_index(fv.drop_first(), v) }
}
/// `free_vars` after meeting an unknown whose class representative is `root`
pub open spec fn numbered<I: Interner>(fv: Seq<ParameterEnaVariable<I>>, kind: VariableKind<I>, root: EnaVariable<I>) -> Seq<ParameterEnaVariable<I>> {
    if first_index(fv, root) < fv.len() { fv } else { fv.push(WithKind::mk(kind, root)) }
}

impl<'q, I: Interner> Canonicalizer<'q, I> {
    pub closed spec fn fvars(self) -> Seq<ParameterEnaVariable<I>> { self.free_vars@ }
    pub closed spec fn tview(self) -> TableView<I> { (*self.table).unify.view() }
    pub closed spec fn max_u(self) -> UniverseIndex { self.max_universe }

    /// ASSUMED contract of `Canonicalizer::add` (canonicalize.rs; `iter().position(..).unwrap_or_else(push)`):
    /// the index of the first entry for this variable, appending the entry when there is none.
    #[verifier::external_body]
    fn add(&mut self, free_var: ParameterEnaVariable<I>) -> (r: usize)
        ensures
            r as int == first_index(old(self).fvars(), free_var.val()),
            final(self).fvars() == (if first_index(old(self).fvars(), free_var.val()) < old(self).fvars().len() { old(self).fvars() } else { old(self).fvars().push(free_var) }),
            final(self).tview() == old(self).tview(),
    { unimplemented!() }
}

pub uninterp spec fn spec_shifted_ty<I: Interner>(t: Ty<I>, by: DebruijnIndex) -> Ty<I>;
pub uninterp spec fn spec_shifted_lt<I: Interner>(t: Lifetime<I>, by: DebruijnIndex) -> Lifetime<I>;
pub uninterp spec fn spec_shifted_ct<I: Interner>(t: Const<I>, by: DebruijnIndex) -> Const<I>;
/// HAVOC: the generic fold of a bound unknown's value with this very folder (recursion through the fold
/// driver).  Assumed: entries of `free_vars` are only ever appended, and the union-find classes are not touched.
impl<I: Interner> Ty<I> {
    #[verifier::external_body]
    pub fn fold_with<'q>(self, folder: &mut Canonicalizer<'q, I>, outer_binder: DebruijnIndex) -> (r: Ty<I>)
        ensures old(folder).fvars().is_prefix_of(final(folder).fvars()), final(folder).tview() == old(folder).tview(),
    { unimplemented!() }
    #[verifier::external_body]
    pub fn shifted_in_from(self, interner: I, by: DebruijnIndex) -> (r: Ty<I>) ensures r == spec_shifted_ty(self, by) { unimplemented!() }
}
impl<I: Interner> Lifetime<I> {
    #[verifier::external_body]
    pub fn fold_with<'q>(self, folder: &mut Canonicalizer<'q, I>, outer_binder: DebruijnIndex) -> (r: Lifetime<I>)
        ensures old(folder).fvars().is_prefix_of(final(folder).fvars()), final(folder).tview() == old(folder).tview(),
    { unimplemented!() }
    #[verifier::external_body]
    pub fn shifted_in_from(self, interner: I, by: DebruijnIndex) -> (r: Lifetime<I>) ensures r == spec_shifted_lt(self, by) { unimplemented!() }
}
impl<I: Interner> Const<I> {
    #[verifier::external_body]
    pub fn fold_with<'q>(self, folder: &mut Canonicalizer<'q, I>, outer_binder: DebruijnIndex) -> (r: Const<I>)
        ensures old(folder).fvars().is_prefix_of(final(folder).fvars()), final(folder).tview() == old(folder).tview(),
    { unimplemented!() }
    #[verifier::external_body]
    pub fn shifted_in_from(self, interner: I, by: DebruijnIndex) -> (r: Const<I>) ensures r == spec_shifted_ct(self, by) { unimplemented!() }
}

// ------------------------------------------------------------- real functions
/// chalk-ir's `TypeFolder`, the methods this impl overrides (`as_dyn` returns `&mut dyn TypeFolder`
/// of the trait being defined, which Verus rejects; it is not extracted)
pub trait TypeFolder<I: Interner> {
    fn interner(&self) -> I;
    fn forbid_free_vars(&self) -> bool;
    fn fold_free_placeholder_ty(&mut self, universe: PlaceholderIndex, _outer_binder: DebruijnIndex) -> Ty<I>;
    fn fold_free_placeholder_lifetime(&mut self, universe: PlaceholderIndex, _outer_binder: DebruijnIndex) -> Lifetime<I>;
    fn fold_free_placeholder_const(&mut self, ty: Ty<I>, universe: PlaceholderIndex, _outer_binder: DebruijnIndex) -> Const<I>;
    fn fold_inference_ty(&mut self, var: InferenceVar, kind: TyVariableKind, outer_binder: DebruijnIndex) -> Ty<I>;
    fn fold_inference_lifetime(&mut self, var: InferenceVar, outer_binder: DebruijnIndex) -> Lifetime<I>;
    fn fold_inference_const(&mut self, ty: Ty<I>, var: InferenceVar, outer_binder: DebruijnIndex) -> Const<I>;
}

impl<'i, I: Interner> TypeFolder<I> for Canonicalizer<'i, I> {
//@FN file=chalk-solve/src/infer/canonicalize.rs within="^impl<'i, I: Interner> TypeFolder<I> for Canonicalizer<'i, I>$" fn=interner contract=nothing path=Canonicalizer::interner
//@FN file=chalk-solve/src/infer/canonicalize.rs within="^impl<'i, I: Interner> TypeFolder<I> for Canonicalizer<'i, I>$" fn=forbid_free_vars contract=forbid path=Canonicalizer::forbid_free_vars
//@FN file=chalk-solve/src/infer/canonicalize.rs within="^impl<'i, I: Interner> TypeFolder<I> for Canonicalizer<'i, I>$" fn=fold_free_placeholder_ty contract=ph_ty path=Canonicalizer::fold_free_placeholder_ty
//@FN file=chalk-solve/src/infer/canonicalize.rs within="^impl<'i, I: Interner> TypeFolder<I> for Canonicalizer<'i, I>$" fn=fold_free_placeholder_lifetime contract=ph_lt path=Canonicalizer::fold_free_placeholder_lifetime
//@FN file=chalk-solve/src/infer/canonicalize.rs within="^impl<'i, I: Interner> TypeFolder<I> for Canonicalizer<'i, I>$" fn=fold_free_placeholder_const contract=ph_ct path=Canonicalizer::fold_free_placeholder_const
//@FN file=chalk-solve/src/infer/canonicalize.rs within="^impl<'i, I: Interner> TypeFolder<I> for Canonicalizer<'i, I>$" fn=fold_inference_ty contract=inf_ty path=Canonicalizer::fold_inference_ty
//@FN file=chalk-solve/src/infer/canonicalize.rs within="^impl<'i, I: Interner> TypeFolder<I> for Canonicalizer<'i, I>$" fn=fold_inference_lifetime contract=inf_lt path=Canonicalizer::fold_inference_lifetime
//@FN file=chalk-solve/src/infer/canonicalize.rs within="^impl<'i, I: Interner> TypeFolder<I> for Canonicalizer<'i, I>$" fn=fold_inference_const contract=inf_ct path=Canonicalizer::fold_inference_const
}

//@CONTRACT nothing
//@END
//@CONTRACT forbid
    // a value being canonicalized may not contain free bound variables
    ensures r,
//@END
//@CONTRACT ph_ty
    ensures
        r == ty_of_placeholder::<I>(universe),
        // "records each one's universe": the largest universe met so far
        final(self).max_u().counter == (if old(self).max_u().counter > universe.ui.counter { old(self).max_u().counter } else { universe.ui.counter }),
        final(self).fvars() == old(self).fvars(), final(self).tview() == old(self).tview(),
//@END
//@CONTRACT ph_lt
    ensures
        r == lifetime_of_placeholder::<I>(universe),
        final(self).max_u().counter == (if old(self).max_u().counter > universe.ui.counter { old(self).max_u().counter } else { universe.ui.counter }),
        final(self).fvars() == old(self).fvars(), final(self).tview() == old(self).tview(),
//@END
//@CONTRACT ph_ct
    ensures
        r == const_of_placeholder::<I>(universe, ty),
        final(self).max_u().counter == (if old(self).max_u().counter > universe.ui.counter { old(self).max_u().counter } else { universe.ui.counter }),
        final(self).fvars() == old(self).fvars(), final(self).tview() == old(self).tview(),
//@END
//@CONTRACT inf_ty
    ensures
        final(self).tview() == old(self).tview(),
        old(self).fvars().is_prefix_of(final(self).fvars()),
        old(self).tview().value[old(self).tview().root[ena_of::<I>(var)]] is Unbound ==> {
            let root = old(self).tview().root[ena_of::<I>(var)];
            // numbered by the class representative, in order of first occurrence, with the unknown's kind
            &&& final(self).fvars() == numbered(old(self).fvars(), VariableKind::<I>::Ty(kind), root)
            &&& ty_kind(r) matches TyKind::BoundVar(bv)
            &&& (ty_kind(r)->BoundVar_0).index as int == first_index(old(self).fvars(), root)
            // the fresh binder is the innermost one, seen from under `outer_binder` binders
            &&& (ty_kind(r)->BoundVar_0).debruijn.depth == outer_binder.depth
        },
//@END
//@CONTRACT inf_lt
    ensures
        final(self).tview() == old(self).tview(),
        old(self).fvars().is_prefix_of(final(self).fvars()),
        old(self).tview().value[old(self).tview().root[ena_of::<I>(var)]] is Unbound ==> {
            let root = old(self).tview().root[ena_of::<I>(var)];
            &&& final(self).fvars() == numbered(old(self).fvars(), VariableKind::<I>::Lifetime, root)
            &&& lifetime_data(r) matches LifetimeData::BoundVar(bv)
            &&& (lifetime_data(r)->BoundVar_0).index as int == first_index(old(self).fvars(), root)
            &&& (lifetime_data(r)->BoundVar_0).debruijn.depth == outer_binder.depth
        },
//@END
//@CONTRACT inf_ct
    ensures
        final(self).tview() == old(self).tview(),
        old(self).fvars().is_prefix_of(final(self).fvars()),
        old(self).tview().value[old(self).tview().root[ena_of::<I>(var)]] is Unbound ==> {
            let root = old(self).tview().root[ena_of::<I>(var)];
            &&& final(self).fvars() == numbered(old(self).fvars(), VariableKind::<I>::Const(ty), root)
            &&& const_data(r).ty == ty
            &&& const_data(r).value matches ConstValue::BoundVar(bv)
            &&& (const_data(r).value->BoundVar_0).index as int == first_index(old(self).fvars(), root)
            &&& (const_data(r).value->BoundVar_0).debruijn.depth == outer_binder.depth
        },
//@END

} // verus!
fn main() {}
