// Unit V34 `antiunifier_consts` — Verus.  C17 ("every merged answer is an instance of the result"): the leaves of the
// anti-unifier (chalk-engine/src/slg/aggregate.rs) that decide what two CONSTANTS generalize to, and the three
// constructors of fresh variables.  A constant is kept only when both answers carry the same one (the same
// placeholder, or concrete values that `const_eq` says are equal); in every other case the result is a FRESH
// variable of the anti-unifier's universe, typed like the first constant - of which both inputs are instances.
// `aggregate_tys` (closures over `&mut self`), `aggregate_lifetimes` (`match *void {}` on the empty enum, which this
// Verus cannot represent) and `aggregate_generic_args` (casts) are not part of the unit.
use vstd::prelude::*;
verus! {

pub trait Interner: Sized + Copy { type DefId: Copy; }
pub trait HasInterner { type Interner: Interner; }
macro_rules! abstract_ty {
    ($($n:ident),*) => { verus! { $(
        #[verifier::external_body]
        #[verifier::reject_recursive_types(I)]
        pub struct $n<I: Interner> { _p: core::marker::PhantomData<I> }
    )* } }
}
abstract_ty!(Lifetime, Ty, Const, ConcreteConst, EnaVariable, InferenceTable);
//@CLONE_EQ generics="I: Interner" type="Ty<I>"
//@CLONE_EQ generics="I: Interner" type="Const<I>"
impl<I: Interner> Copy for EnaVariable<I> {}
impl<I: Interner> Clone for EnaVariable<I> { #[verifier::external_body] fn clone(&self) -> (r: Self) ensures r == *self { unimplemented!() } }
#[verifier::external_body] pub struct InferenceVar { _p: () }
#[verifier::external_body] pub struct BoundVar { _p: () }

// real definitions (extracted)
//@TYPE file=chalk-ir/src/lib.rs kind=struct name=UniverseIndex attrs="#[derive(Clone, Copy)]"
//@TYPE file=chalk-ir/src/lib.rs kind=struct name=PlaceholderIndex attrs="#[derive(Clone, Copy)]"
//@TYPE file=chalk-ir/src/lib.rs kind=struct name=ConstData attrs="#[verifier::reject_recursive_types(I)]"
//@TYPE file=chalk-ir/src/lib.rs kind=enum name=ConstValue attrs="#[verifier::reject_recursive_types(I)]"
//@TYPE file=chalk-engine/src/slg/aggregate.rs kind=struct name=AntiUnifier attrs="#[verifier::reject_recursive_types(I)]"

// ---- abstract views and callee contracts (assumed)
pub uninterp spec fn const_data<I: Interner>(c: Const<I>) -> ConstData<I>;
pub uninterp spec fn var_ty<I: Interner>(v: EnaVariable<I>) -> Ty<I>;
pub uninterp spec fn var_lifetime<I: Interner>(v: EnaVariable<I>) -> Lifetime<I>;
pub uninterp spec fn var_const<I: Interner>(v: EnaVariable<I>, ty: Ty<I>) -> Const<I>;
/// the interner's notion of equal constant values (`ConcreteConst::const_eq`)
pub uninterp spec fn spec_const_eq<I: Interner>(a: ConcreteConst<I>, ty: Ty<I>, b: ConcreteConst<I>) -> bool;
impl<I: Interner> Const<I> {
    #[verifier::external_body]
    pub fn data(&self, interner: I) -> (r: &ConstData<I>) ensures *r == const_data(*self) { unimplemented!() }
}
impl<I: Interner> ConcreteConst<I> {
    #[verifier::external_body]
    pub fn const_eq(&self, ty: &Ty<I>, other: &ConcreteConst<I>, interner: I) -> (r: bool)
        ensures r == spec_const_eq(*self, *ty, *other)
    { unimplemented!() }
}
impl<I: Interner> EnaVariable<I> {
    #[verifier::external_body]
    pub fn to_ty(self, interner: I) -> (r: Ty<I>) ensures r == var_ty(self) { unimplemented!() }
    #[verifier::external_body]
    pub fn to_lifetime(self, interner: I) -> (r: Lifetime<I>) ensures r == var_lifetime(self) { unimplemented!() }
    #[verifier::external_body]
    pub fn to_const(self, interner: I, ty: Ty<I>) -> (r: Const<I>) ensures r == var_const(self, ty) { unimplemented!() }
}
impl<I: Interner> InferenceTable<I> {
    /// universe of every variable created so far
    pub uninterp spec fn universes(&self) -> Map<EnaVariable<I>, UniverseIndex>;
    /// the variable the table hands out next
    pub uninterp spec fn next_var(&self) -> EnaVariable<I>;
    /// a fresh variable: unknown to the table so far, created in the given universe
    #[verifier::external_body]
    pub fn new_variable(&mut self, ui: UniverseIndex) -> (r: EnaVariable<I>)
        ensures r == old(self).next_var(), !old(self).universes().contains_key(r),
                final(self).universes() == old(self).universes().insert(r, ui),
    { unimplemented!() }
}

impl<'infer, I: Interner> AntiUnifier<'infer, I> {
    pub closed spec fn universes(self) -> Map<EnaVariable<I>, UniverseIndex> { (*self.infer).universes() }
    pub closed spec fn next_var(self) -> EnaVariable<I> { (*self.infer).next_var() }
    pub closed spec fn ui(self) -> UniverseIndex { self.universe }
    /// "a fresh variable of the anti-unifier's universe was created, and nothing else happened"
    pub open spec fn made_fresh(pre: Self, post: Self) -> bool {
        &&& !pre.universes().contains_key(pre.next_var())
        &&& post.universes() == pre.universes().insert(pre.next_var(), pre.ui())
        &&& post.ui() == pre.ui()
    }
// ------------------------------------------------------------- real functions
//@FN file=chalk-engine/src/slg/aggregate.rs within="^impl<I: Interner> AntiUnifier<'_, I>$" fn=new_ty_variable contract=new_ty path=AntiUnifier::new_ty_variable
//@FN file=chalk-engine/src/slg/aggregate.rs within="^impl<I: Interner> AntiUnifier<'_, I>$" fn=new_lifetime_variable contract=new_lt path=AntiUnifier::new_lifetime_variable
//@FN file=chalk-engine/src/slg/aggregate.rs within="^impl<I: Interner> AntiUnifier<'_, I>$" fn=new_const_variable contract=new_const path=AntiUnifier::new_const_variable
//@FN file=chalk-engine/src/slg/aggregate.rs within="^impl<I: Interner> AntiUnifier<'_, I>$" fn=aggregate_consts contract=aggregate_consts path=AntiUnifier::aggregate_consts
}

//@CONTRACT new_ty
    ensures r == var_ty(old(self).next_var()), AntiUnifier::made_fresh(*old(self), *final(self)),
//@END
//@CONTRACT new_lt
    ensures r == var_lifetime(old(self).next_var()), AntiUnifier::made_fresh(*old(self), *final(self)),
//@END
//@CONTRACT new_const
    ensures r == var_const(old(self).next_var(), ty), AntiUnifier::made_fresh(*old(self), *final(self)),
//@END
//@CONTRACT aggregate_consts
    ensures
        // the result is the first constant itself, untouched table, ...
        (r == *c1 && final(self).universes() == old(self).universes() && final(self).ui() == old(self).ui())
        // ... or a fresh unknown typed like the first constant (both inputs are instances of it)
        || (r == var_const(old(self).next_var(), const_data(*c1).ty) && AntiUnifier::made_fresh(*old(self), *final(self))),
        // C17: a constant is KEPT only if both answers carry the same one
        !(r == var_const(old(self).next_var(), const_data(*c1).ty) && AntiUnifier::made_fresh(*old(self), *final(self))) ==>
            match (const_data(*c1).value, const_data(*c2).value) {
                (ConstValue::Placeholder(_), ConstValue::Placeholder(_)) => *c1 == *c2,
                (ConstValue::Concrete(e1), ConstValue::Concrete(e2)) => spec_const_eq(e1, const_data(*c1).ty, e2),
                _ => false,
            },
        // (that equal constants ARE kept is precision, not soundness: the property does not ask for it, neither does the unit)
//@END

} // verus!
fn main() {}
