// Unit V3 `recursive_lattice` — Verus.  The recursive solver's fixed-point
// iteration starts from the bottom (inductive goals: NoSolution) resp. the top
// (coinductive goals: trivially-true Unique) of the answer lattice and stops
// exactly when the answer repeats or has become ambiguous (C01, C05, C09).
use vstd::prelude::*;
use vstd::std_specs::cmp::PartialEqSpec;
verus! {

//@INCLUDE common/solution_prelude.rs

pub struct NoSolution;
//@CLONE_EQ generics="" type="NoSolution"

// `core::result::Result` and its derived `PartialEq`: vstd gives `Result == Result`
// no specification and Rust's orphan rule forbids adding one here, so the unit
// uses a definition identical to core's (`enum Result<T, E> { Ok(T), Err(E) }`)
// whose derived equality is specified as structural.  Assumption listed in the catalogue.
pub enum Result<T, E> { Ok(T), Err(E) }
pub use self::Result::{Ok, Err};
impl<T: PartialEq, E: PartialEq> vstd::std_specs::cmp::PartialEqSpecImpl for Result<T, E> {
    open spec fn obeys_eq_spec() -> bool { T::obeys_eq_spec() && E::obeys_eq_spec() }
    open spec fn eq_spec(&self, other: &Self) -> bool {
        match (*self, *other) {
            (Result::Ok(x), Result::Ok(y)) => x.eq_spec(&y),
            (Result::Err(x), Result::Err(y)) => x.eq_spec(&y),
            _ => false,
        }
    }
}
impl<T: PartialEq, E: PartialEq> PartialEq for Result<T, E> {
    #[verifier::external_body]
    fn eq(&self, other: &Self) -> bool { unimplemented!() }
}
pub type Fallible<T> = Result<T, NoSolution>;

#[verifier::external_body]
#[verifier::reject_recursive_types(I)]
pub struct Goal<I: Interner> { _p: core::marker::PhantomData<I> }
#[verifier::external_body]
#[verifier::reject_recursive_types(I)]
pub struct Environment<I: Interner> { _p: core::marker::PhantomData<I> }
impl<I: Interner> HasInterner for Goal<I> { type Interner = I; }
impl<G: HasInterner> HasInterner for InEnvironment<G> { type Interner = G::Interner; }
//@TYPE file=chalk-ir/src/lib.rs kind=struct name=UCanonical attrs="#[verifier::reject_recursive_types(T)]"
//@TYPE file=chalk-ir/src/lib.rs kind=struct name=InEnvironment attrs="#[verifier::reject_recursive_types(G)]"
pub type UCanonicalGoal<I> = UCanonical<InEnvironment<Goal<I>>>;

// ---- callee contracts (assumed unless stated)
pub uninterp spec fn spec_trivial_subst<I: Interner>(g: UCanonicalGoal<I>) -> Substitution<I>;
pub uninterp spec fn spec_goal_coinductive<I: Interner>(g: UCanonicalGoal<I>, db: &dyn RustIrDatabase<I>) -> bool;

impl<I: Interner> UCanonical<InEnvironment<Goal<I>>> {
    /// chalk-ir `UCanonical::trivial_substitution`: maps the i-th canonical binder to
    /// bound variable ^0.i — by construction an identity substitution (iterator code, not verified).
    #[verifier::external_body]
    pub fn trivial_substitution(&self, interner: I) -> (r: Substitution<I>)
        ensures r == spec_trivial_subst(*self), spec_is_identity_subst(r),
    { unimplemented!() }

    /// proved by unit V10 (`<UCanonical<..> as IsCoinductive>::is_coinductive`)
    #[verifier::external_body]
    pub fn is_coinductive(&self, db: &dyn RustIrDatabase<I>) -> (r: bool)
        ensures r == spec_goal_coinductive(*self, db),
    { unimplemented!() }
}
impl<I: Interner> Solution<I> {
    /// proved by unit V1
    #[verifier::external_body]
    pub fn is_ambig(&self) -> (r: bool) ensures r == (*self is Ambig) { unimplemented!() }
}
pub trait RustIrDatabase<I: Interner> {
    fn interner(&self) -> I;
}

// ------------------------------------------------------- specification level
/// top of the lattice: the answer "true, with no conditions" for this goal
pub open spec fn top_answer<I: Interner>(g: UCanonicalGoal<I>) -> Solution<I> {
    Solution::Unique(Canonical {
        value: ConstrainedSubst { subst: spec_trivial_subst(g), constraints: spec_empty_constraints::<I>() },
        binders: g.canonical.binders,
    })
}

// ------------------------------------------------------------- real functions
pub trait SolverStuff<K, V>: Copy {
    fn is_coinductive_goal(self, goal: &K) -> bool;
    fn initial_value(self, goal: &K, coinductive_goal: bool) -> V;
    fn reached_fixed_point(self, old_value: &V, new_value: &V) -> bool;
    fn error_value(self) -> V;
}

impl<I: Interner> SolverStuff<UCanonicalGoal<I>, Fallible<Solution<I>>> for &dyn RustIrDatabase<I> {
//@FN file=chalk-recursive/src/recursive.rs within="^impl<I: Interner> SolverStuff<UCanonicalGoal<I>, Fallible<Solution<I>>> for &dyn RustIrDatabase<I>$" fn=is_coinductive_goal contract=is_coinductive_goal path="<&dyn RustIrDatabase as SolverStuff>::is_coinductive_goal"
//@FN file=chalk-recursive/src/recursive.rs within="^impl<I: Interner> SolverStuff<UCanonicalGoal<I>, Fallible<Solution<I>>> for &dyn RustIrDatabase<I>$" fn=initial_value contract=initial_value path="<&dyn RustIrDatabase as SolverStuff>::initial_value"
//@FN file=chalk-recursive/src/recursive.rs within="^impl<I: Interner> SolverStuff<UCanonicalGoal<I>, Fallible<Solution<I>>> for &dyn RustIrDatabase<I>$" fn=reached_fixed_point contract=reached_fixed_point path="<&dyn RustIrDatabase as SolverStuff>::reached_fixed_point"
//@FN file=chalk-recursive/src/recursive.rs within="^impl<I: Interner> SolverStuff<UCanonicalGoal<I>, Fallible<Solution<I>>> for &dyn RustIrDatabase<I>$" fn=error_value contract=error_value path="<&dyn RustIrDatabase as SolverStuff>::error_value"
}

//@CONTRACT is_coinductive_goal
    ensures r == spec_goal_coinductive(*goal, self),
//@END
//@CONTRACT initial_value
    ensures
        // inductive goals start at the bottom: no solution
        !coinductive_goal ==> r == Err::<Solution<I>, NoSolution>(NoSolution),
        // coinductive goals start at the top: Unique, trivially true, over the goal's own binders
        coinductive_goal ==> r == Ok::<Solution<I>, NoSolution>(top_answer(*goal)),
        coinductive_goal ==> trivial(top_answer(*goal)),
//@END
//@CONTRACT reached_fixed_point
    ensures
        r == (*old_answer == *current_answer || (current_answer is Ok && current_answer->Ok_0 is Ambig)),
//@END
//@CONTRACT error_value
    ensures r == Err::<Solution<I>, NoSolution>(NoSolution),
//@END

// ---------------------------------------------------- lemmas over the contracts
/// The iteration never stops on a changed, definite answer: if the answer changed
/// and the new one is `Unique` or `NoSolution`, another iteration is required.
pub proof fn lemma_no_early_stop<I: Interner>(old: Fallible<Solution<I>>, cur: Fallible<Solution<I>>, stop: bool)
    requires stop == (old == cur || (cur is Ok && cur->Ok_0 is Ambig)),
    ensures
        (old != cur && cur is Err) ==> !stop,
        (old != cur && cur is Ok && cur->Ok_0 is Unique) ==> !stop,
        old == cur ==> stop,
{
}

} // verus!
fn main() {}
