// Unit V30 `ucanon_leaves` — Verus.  C16 ("universe compression keeps the relative order of universes and can be
// undone"): the two folders that apply a universe map to a value, `UMapToCanonical` and `UMapFromCanonical`
// (chalk-solve/src/infer/ucanonicalize.rs).  For EVERY kind of placeholder — type, lifetime, constant —
//   to canonical   : !U_i  becomes  !C_i  with C = map_universe_to_canonical(U) (which must exist), index i kept
//   from canonical : !C_i  becomes  !U_i  with U = map_universe_from_canonical(C), index i kept
// (the arithmetic of the two maps — order preserving, injective, inverse of each other — is unit K8's).
// A folder that does not override the callback of one kind inherits the trait's default, which leaves the
// placeholder's universe alone (the defaults are unit V16's): the unit then checks the contract against that
// default — this is how the missing `UMapFromCanonical::fold_free_placeholder_const` of the pinned tree shows up
// (genuine defect, repaired by /repo commit 80b6cff; DESIGN section 6d).
use vstd::prelude::*;
verus! {

pub trait Interner: Sized + Copy { type DefId: Copy; }
macro_rules! abstract_ty {
    ($($n:ident),*) => { verus! { $(
        #[verifier::external_body]
        #[verifier::reject_recursive_types(I)]
        pub struct $n<I: Interner> { _p: core::marker::PhantomData<I> }
    )* } }
}
abstract_ty!(Ty, Lifetime, Const, DynFolder);
#[derive(Clone, Copy)]
pub struct DebruijnIndex { pub depth: u32 }
#[verifier::external_body]
pub struct UniverseMap { _p: () }

// real definitions (extracted)
//@TYPE file=chalk-ir/src/lib.rs kind=struct name=UniverseIndex attrs="#[derive(Clone, Copy)]"
//@TYPE file=chalk-ir/src/lib.rs kind=struct name=PlaceholderIndex attrs="#[derive(Clone, Copy)]"
//@TYPE file=chalk-solve/src/infer/ucanonicalize.rs kind=struct name=UMapToCanonical attrs="#[verifier::reject_recursive_types(I)]"
//@TYPE file=chalk-solve/src/infer/ucanonicalize.rs kind=struct name=UMapFromCanonical attrs="#[verifier::reject_recursive_types(I)]"

pub uninterp spec fn ty_of_placeholder<I: Interner>(p: PlaceholderIndex) -> Ty<I>;
pub uninterp spec fn lifetime_of_placeholder<I: Interner>(p: PlaceholderIndex) -> Lifetime<I>;
pub uninterp spec fn const_of_placeholder<I: Interner>(p: PlaceholderIndex, ty: Ty<I>) -> Const<I>;
/// the constant's type, folded by the same folder (generic fold driver: abstract)
pub uninterp spec fn folded_ty<I: Interner>(t: Ty<I>, ob: DebruijnIndex) -> Ty<I>;
impl PlaceholderIndex {
    #[verifier::external_body]
    pub fn to_ty<I: Interner>(self, interner: I) -> (r: Ty<I>) ensures r == ty_of_placeholder::<I>(self) { unimplemented!() }
    #[verifier::external_body]
    pub fn to_lifetime<I: Interner>(self, interner: I) -> (r: Lifetime<I>) ensures r == lifetime_of_placeholder::<I>(self) { unimplemented!() }
    #[verifier::external_body]
    pub fn to_const<I: Interner>(self, interner: I, ty: Ty<I>) -> (r: Const<I>) ensures r == const_of_placeholder::<I>(self, ty) { unimplemented!() }
}
impl<I: Interner> Ty<I> {
    #[verifier::external_body]
    pub fn fold_with(self, folder: &mut DynFolder<I>, outer_binder: DebruijnIndex) -> (r: Ty<I>)
        ensures r == folded_ty(self, outer_binder),
    { unimplemented!() }
}
//@CLONE_EQ generics="I: Interner" type="Ty<I>"

/// the universe map (unit K8 proves the laws of these two functions on the real code)
impl UniverseMap {
    pub uninterp spec fn to_canon(&self, u: UniverseIndex) -> Option<UniverseIndex>;
    pub uninterp spec fn from_canon(&self, u: UniverseIndex) -> UniverseIndex;
    #[verifier::external_body]
    pub fn map_universe_to_canonical(&self, universe: UniverseIndex) -> (r: Option<UniverseIndex>) ensures r == self.to_canon(universe) { unimplemented!() }
    #[verifier::external_body]
    pub fn map_universe_from_canonical(&self, universe: UniverseIndex) -> (r: UniverseIndex) ensures r == self.from_canon(universe) { unimplemented!() }
}

/// chalk-ir's `TypeFolder`, the placeholder callbacks (`as_dyn` returns `&mut dyn TypeFolder`; the trait object is
/// an opaque type here, as in unit V16)
pub trait TypeFolder<I: Interner>: Sized {
    /// (Verus takes preconditions of trait methods from the trait declaration only)
    spec fn knows(self, u: UniverseIndex) -> bool;
    fn as_dyn(&mut self) -> &mut DynFolder<I>;
    fn interner(&self) -> I;
    fn forbid_inference_vars(&self) -> bool;
    fn fold_free_placeholder_ty(&mut self, universe0: PlaceholderIndex, outer_binder: DebruijnIndex) -> Ty<I>
        requires old(self).knows(universe0.ui);
    fn fold_free_placeholder_lifetime(&mut self, universe0: PlaceholderIndex, outer_binder: DebruijnIndex) -> Lifetime<I>
        requires old(self).knows(universe0.ui);
    fn fold_free_placeholder_const(&mut self, ty: Ty<I>, universe0: PlaceholderIndex, outer_binder: DebruijnIndex) -> Const<I>
        requires old(self).knows(universe0.ui);
}
/// the trait's DEFAULT callbacks (chalk-ir/src/fold.rs; contract proved by unit V16): the placeholder is kept as it is
/// and the folder's own state is not touched (they take `&mut self` only to hand it on to the fold of a constant's type)
#[verifier::external_body]
pub fn default_fold_free_placeholder_ty<I: Interner>(universe: PlaceholderIndex, outer_binder: DebruijnIndex) -> (r: Ty<I>)
    ensures r == ty_of_placeholder::<I>(universe)
{ unimplemented!() }
#[verifier::external_body]
pub fn default_fold_free_placeholder_lifetime<I: Interner>(universe: PlaceholderIndex, outer_binder: DebruijnIndex) -> (r: Lifetime<I>)
    ensures r == lifetime_of_placeholder::<I>(universe)
{ unimplemented!() }
#[verifier::external_body]
pub fn default_fold_free_placeholder_const<I: Interner>(ty: Ty<I>, universe: PlaceholderIndex, outer_binder: DebruijnIndex) -> (r: Const<I>)
    ensures r == const_of_placeholder::<I>(universe, folded_ty(ty, outer_binder))
{ unimplemented!() }

impl<'q, I: Interner> UMapToCanonical<'q, I> {
    pub closed spec fn map(self) -> UniverseMap { *self.universes }
}
impl<'q, I: Interner> UMapFromCanonical<'q, I> {
    pub closed spec fn map(self) -> UniverseMap { *self.universes }
}

// ------------------------------------------------------------- real functions
impl<'i, I: Interner> TypeFolder<I> for UMapToCanonical<'i, I> {
    /// "Expected UCollector to encounter this universe": the code `expect`s it
    open spec fn knows(self, u: UniverseIndex) -> bool { self.map().to_canon(u) is Some }
    #[verifier::external_body]
    fn as_dyn(&mut self) -> &mut DynFolder<I> { unimplemented!() }
//@FN file=chalk-solve/src/infer/ucanonicalize.rs within="^impl<'i, I: Interner> TypeFolder<I> for UMapToCanonical<'i, I>$" fn=interner contract=nothing path=UMapToCanonical::interner
//@FN file=chalk-solve/src/infer/ucanonicalize.rs within="^impl<'i, I: Interner> TypeFolder<I> for UMapToCanonical<'i, I>$" fn=forbid_inference_vars contract=forbid path=UMapToCanonical::forbid_inference_vars
//@FN file=chalk-solve/src/infer/ucanonicalize.rs within="^impl<'i, I: Interner> TypeFolder<I> for UMapToCanonical<'i, I>$" fn=fold_free_placeholder_ty contract=to_ty path=UMapToCanonical::fold_free_placeholder_ty ifabsent=block:dflt_ty
//@FN file=chalk-solve/src/infer/ucanonicalize.rs within="^impl<'i, I: Interner> TypeFolder<I> for UMapToCanonical<'i, I>$" fn=fold_free_placeholder_lifetime contract=to_lt path=UMapToCanonical::fold_free_placeholder_lifetime ifabsent=block:dflt_lt
//@FN file=chalk-solve/src/infer/ucanonicalize.rs within="^impl<'i, I: Interner> TypeFolder<I> for UMapToCanonical<'i, I>$" fn=fold_free_placeholder_const contract=to_ct path=UMapToCanonical::fold_free_placeholder_const ifabsent=block:dflt_ct
}
impl<'i, I: Interner> TypeFolder<I> for UMapFromCanonical<'i, I> {
    open spec fn knows(self, u: UniverseIndex) -> bool { true }
    #[verifier::external_body]
    fn as_dyn(&mut self) -> &mut DynFolder<I> { unimplemented!() }
//@FN file=chalk-solve/src/infer/ucanonicalize.rs within="^impl<'i, I: Interner> TypeFolder<I> for UMapFromCanonical<'i, I>$" fn=interner contract=nothing path=UMapFromCanonical::interner
//@FN file=chalk-solve/src/infer/ucanonicalize.rs within="^impl<'i, I: Interner> TypeFolder<I> for UMapFromCanonical<'i, I>$" fn=forbid_inference_vars contract=forbid path=UMapFromCanonical::forbid_inference_vars
//@FN file=chalk-solve/src/infer/ucanonicalize.rs within="^impl<'i, I: Interner> TypeFolder<I> for UMapFromCanonical<'i, I>$" fn=fold_free_placeholder_ty contract=from_ty path=UMapFromCanonical::fold_free_placeholder_ty ifabsent=block:dflt_ty
//@FN file=chalk-solve/src/infer/ucanonicalize.rs within="^impl<'i, I: Interner> TypeFolder<I> for UMapFromCanonical<'i, I>$" fn=fold_free_placeholder_lifetime contract=from_lt path=UMapFromCanonical::fold_free_placeholder_lifetime ifabsent=block:dflt_lt
//@FN file=chalk-solve/src/infer/ucanonicalize.rs within="^impl<'i, I: Interner> TypeFolder<I> for UMapFromCanonical<'i, I>$" fn=fold_free_placeholder_const contract=from_ct path=UMapFromCanonical::fold_free_placeholder_const ifabsent=block:dflt_ct
}

// stand-ins used when an impl does not override a callback: the trait's default runs
//@CONTRACT dflt_ty
    fn fold_free_placeholder_ty(&mut self, universe0: PlaceholderIndex, outer_binder: DebruijnIndex) -> Ty<I> {
        default_fold_free_placeholder_ty(universe0, outer_binder)
    }
//@END
//@CONTRACT dflt_lt
    fn fold_free_placeholder_lifetime(&mut self, universe0: PlaceholderIndex, outer_binder: DebruijnIndex) -> Lifetime<I> {
        default_fold_free_placeholder_lifetime(universe0, outer_binder)
    }
//@END
//@CONTRACT dflt_ct
    fn fold_free_placeholder_const(&mut self, ty: Ty<I>, universe0: PlaceholderIndex, outer_binder: DebruijnIndex) -> Const<I> {
        default_fold_free_placeholder_const(ty, universe0, outer_binder)
    }
//@END

//@CONTRACT nothing
//@END
//@CONTRACT forbid
    // a u-canonical value contains no unknowns
    ensures r,
//@END
//@CONTRACT to_ty
    ensures r == ty_of_placeholder::<I>(PlaceholderIndex { ui: old(self).map().to_canon(universe0.ui)->0, idx: universe0.idx }),
//@END
//@CONTRACT to_lt
    ensures r == lifetime_of_placeholder::<I>(PlaceholderIndex { ui: old(self).map().to_canon(universe0.ui)->0, idx: universe0.idx }),
//@END
//@CONTRACT to_ct
    ensures exists|t: Ty<I>| r == const_of_placeholder::<I>(PlaceholderIndex { ui: old(self).map().to_canon(universe0.ui)->0, idx: universe0.idx }, t),
//@END
//@CONTRACT from_ty
    ensures r == ty_of_placeholder::<I>(PlaceholderIndex { ui: old(self).map().from_canon(universe0.ui), idx: universe0.idx }),
//@END
//@CONTRACT from_lt
    ensures r == lifetime_of_placeholder::<I>(PlaceholderIndex { ui: old(self).map().from_canon(universe0.ui), idx: universe0.idx }),
//@END
//@CONTRACT from_ct
    ensures exists|t: Ty<I>| r == const_of_placeholder::<I>(PlaceholderIndex { ui: old(self).map().from_canon(universe0.ui), idx: universe0.idx }, t),
//@END

} // verus!
fn main() {}
