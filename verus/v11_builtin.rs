// Unit V11 `builtin_dispatch` — Verus.  C08: which built-in `Sized` / `Copy`
// clauses are generated for which type constructor.  The oracle is the table
// transcribed from the Rust reference (sized: "all types except slices, str,
// trait objects, extern types are Sized; a struct is Sized iff its last field
// is; a tuple iff its last element is"; copy: "tuples/arrays if their elements
// are; fn items, fn pointers; closures if their captures are; everything else
// needs an explicit (library) impl"), NOT the match in the code.
use vstd::prelude::*;
verus! {

pub trait Interner: Sized + Copy { type DefId: Copy; }
pub trait HasInterner { type Interner: Interner; }

macro_rules! abstract_ty {
    ($($n:ident),*) => { verus! { $(
        #[verifier::external_body]
        #[verifier::reject_recursive_types(I)]
        pub struct $n<I: Interner> { _p: core::marker::PhantomData<I> }
    )* } }
}
abstract_ty!(Ty, Substitution, Const, Lifetime, DynTy, AliasTy, FnPointer, CanonicalVarKinds, AdtId, AssocTypeId, OpaqueTyId, FnDefId, ClosureId, CoroutineId, ForeignDefId);
#[verifier::external_body] pub struct Scalar { _p: () }
#[verifier::external_body] pub struct Mutability { _p: () }
#[verifier::external_body] pub struct PlaceholderIndex { _p: () }
#[verifier::external_body] pub struct InferenceVar { _p: () }
#[verifier::external_body] pub struct UniverseIndex { _p: () }
pub struct Floundered;

// real definitions (extracted)
//@TYPE file=chalk-ir/src/lib.rs kind=struct name=DebruijnIndex
//@TYPE file=chalk-ir/src/lib.rs kind=struct name=BoundVar
//@TYPE file=chalk-ir/src/lib.rs kind=enum name=TyVariableKind
//@TYPE file=chalk-ir/src/lib.rs kind=enum name=VariableKind attrs="#[verifier::reject_recursive_types(I)]"
//@TYPE file=chalk-ir/src/lib.rs kind=struct name=WithKind attrs="#[verifier::reject_recursive_types(I)] #[verifier::reject_recursive_types(T)]"
//@TYPE file=chalk-ir/src/lib.rs kind=enum name=TyKind attrs="#[verifier::reject_recursive_types(I)]"
//@TYPE file=chalk-ir/src/lib.rs kind=struct name=TraitId attrs="#[verifier::reject_recursive_types(I)]"
//@TYPE file=chalk-ir/src/lib.rs kind=struct name=TraitRef attrs="#[verifier::reject_recursive_types(I)]"
pub type CanonicalVarKind<I> = WithKind<I, UniverseIndex>;
impl<I: Interner, T> WithKind<I, T> {
    pub closed spec fn spec_kind(self) -> VariableKind<I> { self.kind }
}

impl<I: Interner> CanonicalVarKinds<I> {
    pub uninterp spec fn spec_at(&self, index: usize) -> CanonicalVarKind<I>;
    /// `binders.at(i)` (precondition: the bound variable refers to an existing binder — caller's obligation)
    #[verifier::external_body]
    pub fn at(&self, interner: I, index: usize) -> (r: &CanonicalVarKind<I>)
        ensures *r == self.spec_at(index)
    { unimplemented!() }
}

impl<I: Interner> Copy for ClosureId<I> {}
impl<I: Interner> Clone for ClosureId<I> { #[verifier::external_body] fn clone(&self) -> (r: Self) ensures r == *self { unimplemented!() } }

#[verifier::external_body]
#[verifier::reject_recursive_types(T)]
pub struct Binders<T> { _p: core::marker::PhantomData<T> }
pub uninterp spec fn spec_substitute<I: Interner, T>(b: Binders<T>, p: Substitution<I>) -> T;
impl<T> Binders<T> {
    #[verifier::external_body]
    pub fn substitute<I: Interner>(self, interner: I, parameters: &Substitution<I>) -> (r: T)
        ensures r == spec_substitute(self, *parameters)
    { unimplemented!() }
}

//@TYPE file=chalk-solve/src/rust_ir.rs kind=enum name=WellKnownTrait
pub uninterp spec fn ty_kind<I: Interner>(t: Ty<I>) -> TyKind<I>;
pub uninterp spec fn spec_from1<I: Interner>(t: Ty<I>) -> Substitution<I>;
impl<I: Interner> Ty<I> {
    #[verifier::external_body]
    pub fn kind(&self, interner: I) -> (r: &TyKind<I>) ensures *r == ty_kind(*self) { unimplemented!() }
}
impl<I: Interner> Substitution<I> {
    #[verifier::external_body]
    pub fn from1(interner: I, arg: Ty<I>) -> (r: Self) ensures r == spec_from1(arg) { unimplemented!() }
}
impl<I: Interner> Copy for TraitId<I> {}
impl<I: Interner> Clone for TraitId<I> { #[verifier::external_body] fn clone(&self) -> (r: Self) ensures r == *self { unimplemented!() } }

pub trait RustIrDatabase<I: Interner> {
    fn interner(&self) -> I;
    spec fn spec_well_known(&self, t: WellKnownTrait) -> Option<TraitId<I>>;
    /// (the lang item is declared whenever a goal for it exists: the code unwraps)
    fn well_known_trait_id(&self, well_known_trait: WellKnownTrait) -> (r: Option<TraitId<I>>)
        ensures r == self.spec_well_known(well_known_trait), r is Some;
    spec fn spec_closure_fn_substitution(&self, id: ClosureId<I>, s: Substitution<I>) -> Substitution<I>;
    spec fn spec_closure_upvars(&self, id: ClosureId<I>, s: Substitution<I>) -> Binders<Ty<I>>;
    fn closure_fn_substitution(&self, closure_id: ClosureId<I>, substs: &Substitution<I>) -> (r: Substitution<I>)
        ensures r == self.spec_closure_fn_substitution(closure_id, *substs);
    fn closure_upvars(&self, closure_id: ClosureId<I>, substs: &Substitution<I>) -> (r: Binders<Ty<I>>)
        ensures r == self.spec_closure_upvars(closure_id, *substs);
}

// ---- std iterators used to hand types to `needs_impl_for_tys` (assumed std contracts)
#[verifier::reject_recursive_types(A)]
#[verifier::external_type_specification]
#[verifier::external_body]
pub struct ExIntoIter<A>(std::option::IntoIter<A>);
#[verifier::reject_recursive_types(T)]
#[verifier::external_type_specification]
#[verifier::external_body]
pub struct ExOnce<T>(std::iter::Once<T>);
pub uninterp spec fn once_view<T>(o: std::iter::Once<T>) -> Seq<T>;
pub uninterp spec fn optiter_view<T>(o: std::option::IntoIter<T>) -> Seq<T>;
pub assume_specification<T>[ std::iter::once ](t: T) -> (r: std::iter::Once<T>)
    ensures once_view(r) == seq![t];
pub assume_specification<T>[ <Option<T> as IntoIterator>::into_iter ](o: Option<T>) -> (r: std::option::IntoIter<T>)
    ensures optiter_view(r) == (match o { Some(x) => seq![x], None => Seq::<T>::empty() });
pub mod iter { pub use std::iter::once; }

pub trait TySeq<I: Interner> { spec fn tys(&self) -> Seq<Ty<I>>; }
impl<I: Interner> TySeq<I> for std::iter::Once<Ty<I>> { open spec fn tys(&self) -> Seq<Ty<I>> { once_view(*self) } }
impl<I: Interner> TySeq<I> for std::option::IntoIter<Ty<I>> { open spec fn tys(&self) -> Seq<Ty<I>> { optiter_view(*self) } }

// ---- the clause builder with a ghost log of what was pushed
#[verifier::reject_recursive_types(I)]
pub enum Pushed<I: Interner> {
    /// `builder.push_fact(trait_ref)`: the unconditional clause `trait_ref.`
    Fact(TraitRef<I>),
    /// `trait_ref :- Implemented(last field of the struct : Trait)` (push_adt_sized_conditions)
    AdtLastField(TraitRef<I>, AdtId<I>, Substitution<I>),
    /// `trait_ref :- last element : Trait`, or the fact for the 0-tuple (push_tuple_sized_conditions)
    TupleLastElem(TraitRef<I>, usize, Substitution<I>),
    /// `trait_ref :- every element : Trait`, or the fact for the 0-tuple (push_tuple_copy_conditions)
    TupleAllElems(TraitRef<I>, usize, Substitution<I>),
    /// `trait_ref :- every given type : Trait` (needs_impl_for_tys)
    NeedsImplFor(TraitRef<I>, Seq<Ty<I>>),
}

#[verifier::external_body]
#[verifier::reject_recursive_types(I)]
pub struct ClauseBuilder<'me, I: Interner> { _p: core::marker::PhantomData<&'me I> }
impl<'me, I: Interner> ClauseBuilder<'me, I> {
    pub uninterp spec fn log(&self) -> Seq<Pushed<I>>;
    #[verifier::external_body]
    pub fn push_fact(&mut self, consequence: TraitRef<I>)
        ensures final(self).log() == old(self).log().push(Pushed::Fact(consequence))
    { unimplemented!() }
}

#[verifier::external_body]
fn push_adt_sized_conditions<I: Interner>(db: &dyn RustIrDatabase<I>, builder: &mut ClauseBuilder<'_, I>, trait_ref: TraitRef<I>, adt_id: AdtId<I>, substitution: &Substitution<I>)
    ensures final(builder).log() == old(builder).log().push(Pushed::AdtLastField(trait_ref, adt_id, *substitution))
{ unimplemented!() }
#[verifier::external_body]
fn push_tuple_sized_conditions<I: Interner>(db: &dyn RustIrDatabase<I>, builder: &mut ClauseBuilder<'_, I>, trait_ref: TraitRef<I>, arity: usize, substitution: &Substitution<I>)
    ensures final(builder).log() == old(builder).log().push(Pushed::TupleLastElem(trait_ref, arity, *substitution))
{ unimplemented!() }

#[verifier::external_body]
fn push_tuple_copy_conditions<I: Interner>(db: &dyn RustIrDatabase<I>, builder: &mut ClauseBuilder<'_, I>, trait_ref: TraitRef<I>, arity: usize, substitution: &Substitution<I>)
    ensures final(builder).log() == old(builder).log().push(Pushed::TupleAllElems(trait_ref, arity, *substitution))
{ unimplemented!() }
/// real signature: `tys: impl Iterator<Item = Ty<I>>`; the unit only needs to know WHICH types are handed over
#[verifier::external_body]
fn needs_impl_for_tys<I: Interner, It: TySeq<I>>(db: &dyn RustIrDatabase<I>, builder: &mut ClauseBuilder<'_, I>, trait_ref: TraitRef<I>, tys: It)
    ensures final(builder).log() == old(builder).log().push(Pushed::NeedsImplFor(trait_ref, tys.tys()))
{ unimplemented!() }

// ------------------------------------------------------- specification level
/// Rust reference, "Sized": what the built-in rule contributes for a type constructor.
pub enum SizedRule { Always, Never, LastField, LastElem, NoBuiltinRule, Unknown }

pub open spec fn sized_rule<I: Interner>(ty: TyKind<I>, binders: CanonicalVarKinds<I>) -> SizedRule {
    match ty {
        // dynamically sized or opaque to the built-in rule
        TyKind::Str | TyKind::Slice(_) | TyKind::Foreign(_) => SizedRule::Never,
        TyKind::Dyn(_) => SizedRule::NoBuiltinRule,        // never Sized; handled (rejected) elsewhere
        TyKind::Alias(_) | TyKind::Placeholder(_) | TyKind::AssociatedType(..) | TyKind::OpaqueType(..) | TyKind::Error => SizedRule::NoBuiltinRule,
        TyKind::Adt(..) => SizedRule::LastField,
        TyKind::Tuple(..) => SizedRule::LastElem,
        TyKind::Scalar(_) | TyKind::Never | TyKind::Ref(..) | TyKind::Raw(..) | TyKind::Array(..)
        | TyKind::FnDef(..) | TyKind::Function(_) | TyKind::Closure(..) | TyKind::Coroutine(..) | TyKind::CoroutineWitness(..) => SizedRule::Always,
        TyKind::InferenceVar(_, k) => match k { TyVariableKind::General => SizedRule::Unknown, _ => SizedRule::Always },
        TyKind::BoundVar(bv) => match binders.spec_at(bv.index).spec_kind() {
            VariableKind::Ty(TyVariableKind::General) => SizedRule::Unknown,
            VariableKind::Ty(_) => SizedRule::Always,
            _ => SizedRule::NoBuiltinRule,
        },
    }
}

/// Rust reference, "Copy": built-in rule per type constructor.
pub enum CopyRule { Always, AllElems, ElemOfArray, Upvars, NoBuiltinRule, Unknown }

pub open spec fn copy_rule<I: Interner>(ty: TyKind<I>, binders: CanonicalVarKinds<I>) -> CopyRule {
    match ty {
        TyKind::Tuple(..) => CopyRule::AllElems,
        TyKind::Array(..) => CopyRule::ElemOfArray,
        TyKind::FnDef(..) | TyKind::Function(_) => CopyRule::Always,
        TyKind::Closure(..) => CopyRule::Upvars,
        // library impls (`impl Copy for u32`, `impl<T: ?Sized> Copy for &T`, ..) or never Copy:
        TyKind::Ref(..) | TyKind::Raw(..) | TyKind::Scalar(_) | TyKind::Never | TyKind::Str | TyKind::Adt(..) | TyKind::AssociatedType(..)
        | TyKind::Slice(_) | TyKind::OpaqueType(..) | TyKind::Foreign(_) | TyKind::Coroutine(..) | TyKind::CoroutineWitness(..) | TyKind::Error
        | TyKind::Alias(_) | TyKind::Dyn(_) | TyKind::Placeholder(_) => CopyRule::NoBuiltinRule,
        TyKind::InferenceVar(_, k) => match k { TyVariableKind::General => CopyRule::Unknown, _ => CopyRule::Always },
        TyKind::BoundVar(bv) => match binders.spec_at(bv.index).spec_kind() {
            VariableKind::Ty(TyVariableKind::General) => CopyRule::Unknown,
            VariableKind::Ty(_) => CopyRule::Always,
            _ => CopyRule::NoBuiltinRule,
        },
    }
}

// ------------------------------------------------------------- real functions
//@FN file=chalk-solve/src/clauses/builtin_traits/clone.rs fn=add_clone_program_clauses contract=add_copy path=builtin_traits::clone::add_clone_program_clauses
//@FN file=chalk-solve/src/clauses/builtin_traits/tuple.rs fn=add_tuple_program_clauses contract=add_tuple path=builtin_traits::tuple::add_tuple_program_clauses
//@FN file=chalk-solve/src/clauses/builtin_traits/copy.rs fn=add_copy_program_clauses contract=add_copy path=builtin_traits::copy::add_copy_program_clauses
//@FN file=chalk-solve/src/clauses/builtin_traits/sized.rs fn=add_sized_program_clauses contract=add_sized path=builtin_traits::sized::add_sized_program_clauses

//@CONTRACT add_sized
    ensures
        match sized_rule(ty, *binders) {
            SizedRule::Always => r is Ok && final(builder).log() == old(builder).log().push(Pushed::Fact(trait_ref)),
            SizedRule::Never | SizedRule::NoBuiltinRule => r is Ok && final(builder).log() == old(builder).log(),
            SizedRule::LastField => r is Ok && (exists|id: AdtId<I>, s: Substitution<I>| ty == TyKind::<I>::Adt(id, s)
                                        && final(builder).log() == old(builder).log().push(Pushed::AdtLastField(trait_ref, id, s))),
            SizedRule::LastElem => r is Ok && (exists|n: usize, s: Substitution<I>| ty == TyKind::<I>::Tuple(n, s)
                                        && final(builder).log() == old(builder).log().push(Pushed::TupleLastElem(trait_ref, n, s))),
            // not enough information: flounder, and generate nothing
            SizedRule::Unknown => r is Err && final(builder).log() == old(builder).log(),
        },
//@END

//@CONTRACT add_tuple
    ensures
        match ty_kind(self_ty) {
            // every tuple type implements `Tuple`, unconditionally
            TyKind::Tuple(..) => r is Ok && final(builder).log() == old(builder).log().push(
                Pushed::Fact(TraitRef { trait_id: db.spec_well_known(WellKnownTrait::Tuple)->Some_0, substitution: spec_from1(self_ty) })),
            // cannot enumerate: unknown / not yet normalized self type
            TyKind::InferenceVar(..) | TyKind::BoundVar(_) | TyKind::Alias(..) => r is Err && final(builder).log() == old(builder).log(),
            // nothing else is a tuple
            _ => r is Ok && final(builder).log() == old(builder).log(),
        },
//@END
//@CONTRACT add_copy
    ensures
        match copy_rule(ty, *binders) {
            CopyRule::Always => r is Ok && final(builder).log() == old(builder).log().push(Pushed::Fact(trait_ref)),
            CopyRule::NoBuiltinRule => r is Ok && final(builder).log() == old(builder).log(),
            CopyRule::AllElems => r is Ok && (exists|n: usize, s: Substitution<I>| ty == TyKind::<I>::Tuple(n, s)
                                        && final(builder).log() == old(builder).log().push(Pushed::TupleAllElems(trait_ref, n, s))),
            CopyRule::ElemOfArray => r is Ok && (exists|t: Ty<I>, c: Const<I>| ty == TyKind::<I>::Array(t, c)
                                        && final(builder).log() == old(builder).log().push(Pushed::NeedsImplFor(trait_ref, seq![t]))),
            CopyRule::Upvars => r is Ok && (exists|id: ClosureId<I>, s: Substitution<I>| ty == TyKind::<I>::Closure(id, s)
                                        && final(builder).log() == old(builder).log().push(Pushed::NeedsImplFor(trait_ref,
                                               seq![spec_substitute(db.spec_closure_upvars(id, s), db.spec_closure_fn_substitution(id, s))]))),
            CopyRule::Unknown => r is Err && final(builder).log() == old(builder).log(),
        },
//@END

} // verus!
fn main() {}
