// Unit V9 `lifetime_variance` — Verus.  C29 (lifetime requirements follow the
// variance of the position), C14 (an unknown lifetime is bound only to something
// its universe can name), C15 (relating lifetimes never fails, in either order).
use vstd::prelude::*;
verus! {

pub trait Interner: Sized + Copy { type DefId: Copy; }
pub trait HasInterner { type Interner: Interner; }
pub trait UnificationDatabase<I: Interner> {}

macro_rules! abstract_ty {
    ($($n:ident),*) => { verus! { $(
        #[verifier::external_body]
        #[verifier::reject_recursive_types(I)]
        pub struct $n<I: Interner> { _p: core::marker::PhantomData<I> }
    )* } }
}
abstract_ty!(Environment, Goal, Lifetime, Ty, Const, ConcreteConst, EnaVariable, InferenceValue, TraitRef, AliasTy, TypeOutlives, EnaTable);
impl<I: Interner> HasInterner for Goal<I> { type Interner = I; }
//@CLONE_EQ generics="I: Interner" type="Lifetime<I>"
//@CLONE_EQ generics="I: Interner" type="Ty<I>"
//@CLONE_EQ generics="I: Interner" type="Const<I>"
//@CLONE_EQ generics="I: Interner" type="AliasTy<I>"
impl<I: Interner> Copy for EnaVariable<I> {}
impl<I: Interner> Clone for EnaVariable<I> { #[verifier::external_body] fn clone(&self) -> (r: Self) ensures r == *self { unimplemented!() } }

pub struct NoSolution;
pub type Fallible<T> = Result<T, NoSolution>;
// chalk-ir's `Void` is an empty enum (the Phantom variant is uninhabited); Verus rejects empty
// datatypes, so it is an opaque struct here — the unit never relies on inhabitedness.
#[verifier::external_body]
pub struct Void { _p: () }
impl Copy for Void {}
impl Clone for Void { #[verifier::external_body] fn clone(&self) -> (r: Self) ensures r == *self { unimplemented!() } }

#[verifier::external_body]
pub struct InferenceVar { _p: () }
impl Copy for InferenceVar {}
impl Clone for InferenceVar { #[verifier::external_body] fn clone(&self) -> (r: Self) ensures r == *self { unimplemented!() } }
#[verifier::external_body]
pub struct BoundVar { _p: () }
impl Copy for BoundVar {}
impl Clone for BoundVar { #[verifier::external_body] fn clone(&self) -> (r: Self) ensures r == *self { unimplemented!() } }

// real definitions (extracted)
//@TYPE file=chalk-ir/src/lib.rs kind=enum name=Variance attrs="#[derive(Clone, Copy)]"
//@TYPE file=chalk-ir/src/lib.rs kind=struct name=UniverseIndex attrs="#[derive(Clone, Copy)]"
//@TYPE file=chalk-ir/src/lib.rs kind=struct name=PlaceholderIndex attrs="#[derive(Clone, Copy)]"
//@TYPE file=chalk-ir/src/lib.rs kind=enum name=LifetimeData attrs="#[verifier::reject_recursive_types(I)] #[derive(Clone, Copy)]"
//@TYPE file=chalk-ir/src/lib.rs kind=struct name=LifetimeOutlives attrs="#[verifier::reject_recursive_types(I)]"
//@TYPE file=chalk-ir/src/lib.rs kind=struct name=ConstData attrs="#[verifier::reject_recursive_types(I)]"
//@TYPE file=chalk-ir/src/lib.rs kind=enum name=ConstValue attrs="#[verifier::reject_recursive_types(I)]"
//@TYPE file=chalk-ir/src/lib.rs kind=struct name=AliasEq attrs="#[verifier::reject_recursive_types(I)]"
//@TYPE file=chalk-ir/src/lib.rs kind=enum name=WhereClause attrs="#[verifier::reject_recursive_types(I)]"
//@TYPE file=chalk-ir/src/lib.rs kind=struct name=InEnvironment attrs="#[verifier::reject_recursive_types(G)]"
//@TYPE file=chalk-solve/src/infer/unify.rs kind=struct name=Unifier attrs="#[verifier::reject_recursive_types(I)]"
use core::marker::PhantomData;

// ---- the two real leaf functions of chalk-ir this unit depends on (contracts proved by Kani unit K1/K3)
impl UniverseIndex {
    pub open spec fn spec_can_see(self, ui: UniverseIndex) -> bool { self.counter >= ui.counter }
//@FN file=chalk-ir/src/lib.rs within="^impl UniverseIndex$" fn=can_see contract=can_see path=UniverseIndex::can_see
//@FN file=chalk-ir/src/lib.rs within="^impl UniverseIndex$" fn=root contract=root path=UniverseIndex::root
    pub const ROOT: UniverseIndex = UniverseIndex { counter: 0 };
}
impl Variance {
    /// the standard variance composition (PLDI'11 fig. 1); `Variance::xform` == this: Kani unit K1 (k3_c_xform)
    pub open spec fn spec_xform(self, other: Variance) -> Variance {
        if self is Invariant || other is Invariant { Variance::Invariant }
        else if (self is Covariant) == (other is Covariant) { Variance::Covariant }
        else { Variance::Contravariant }
    }
    pub open spec fn spec_invert(self) -> Variance {
        match self { Variance::Invariant => Variance::Invariant, Variance::Covariant => Variance::Contravariant, Variance::Contravariant => Variance::Covariant }
    }
//@FN file=chalk-ir/src/lib.rs within="^impl Variance$" fn=xform contract=xform path=Variance::xform
//@FN file=chalk-ir/src/lib.rs within="^impl Variance$" fn=invert contract=invert path=Variance::invert
}
//@CONTRACT can_see
    ensures r == self.spec_can_see(ui),
//@END
//@CONTRACT root
    ensures r.counter == 0,
//@END
//@CONTRACT xform
    ensures r == self.spec_xform(other),
//@END
//@CONTRACT invert
    ensures r == self.spec_invert(),
//@END

// ---- abstract views and callee contracts (assumed)
pub uninterp spec fn lifetime_data<I: Interner>(l: Lifetime<I>) -> LifetimeData<I>;
pub uninterp spec fn var_lifetime<I: Interner>(v: EnaVariable<I>) -> Lifetime<I>;
pub uninterp spec fn ena_of<I: Interner>(v: InferenceVar) -> EnaVariable<I>;
pub uninterp spec fn goal_of_where_clause<I: Interner>(w: WhereClause<I>) -> Goal<I>;
pub uninterp spec fn value_of_lifetime<I: Interner>(l: Lifetime<I>) -> InferenceValue<I>;

impl<I: Interner> Lifetime<I> {
    #[verifier::external_body]
    pub fn data(&self, interner: I) -> (r: &LifetimeData<I>) ensures *r == lifetime_data(*self) { unimplemented!() }
}
// neighbourhood API, real text (not called by the pinned `relate_lifetime_lifetime`; an edit that uses it stays decidable)
impl<I: Interner> Lifetime<I> {
//@FN file=chalk-ir/src/lib.rs within="^impl<I: Interner> Lifetime<I>$" fn=inference_var contract=lt_inference_var path=Lifetime::inference_var
}
//@CONTRACT lt_inference_var
    ensures r == (match lifetime_data(*self) { LifetimeData::InferenceVar(v) => Some(v), _ => None })
//@END
impl<I: Interner> From<InferenceVar> for EnaVariable<I> {
    #[verifier::external_body]
    fn from(var: InferenceVar) -> (r: Self) ensures r == ena_of::<I>(var) { unimplemented!() }
}
impl<I: Interner> EnaVariable<I> {
    #[verifier::external_body]
    pub fn to_lifetime(self, interner: I) -> (r: Lifetime<I>) ensures r == var_lifetime(self) { unimplemented!() }
}
impl<I: Interner> InferenceValue<I> {
    #[verifier::external_body]
    pub fn from_lifetime(interner: I, lifetime: Lifetime<I>) -> (r: Self) ensures r == value_of_lifetime(lifetime) { unimplemented!() }
}
pub uninterp spec fn goal_of_alias_eq<I: Interner>(a: AliasEq<I>) -> Goal<I>;
pub uninterp spec fn const_data<I: Interner>(c: Const<I>) -> ConstData<I>;
pub uninterp spec fn var_const<I: Interner>(v: EnaVariable<I>, ty: Ty<I>) -> Const<I>;
impl<I: Interner> Const<I> {
    #[verifier::external_body]
    pub fn data(&self, interner: I) -> (r: &ConstData<I>) ensures *r == const_data(*self) { unimplemented!() }
}
impl<I: Interner> EnaVariable<I> {
    #[verifier::external_body]
    pub fn to_const(self, interner: I, ty: Ty<I>) -> (r: Const<I>) ensures r == var_const(self, ty) { unimplemented!() }
}
pub uninterp spec fn var_ty<I: Interner>(v: EnaVariable<I>) -> Ty<I>;
impl<I: Interner> AliasEq<I> {
    /// `CastTo<Goal<I>>` for an associated-type equality
    #[verifier::external_body]
    pub fn cast(self, interner: I) -> (r: Goal<I>) ensures r == goal_of_alias_eq(self) { unimplemented!() }
}
impl<I: Interner> EnaVariable<I> {
    #[verifier::external_body]
    pub fn to_ty(self, interner: I) -> (r: Ty<I>) ensures r == var_ty(self) { unimplemented!() }
}
impl<I: Interner> WhereClause<I> {
    /// `CastTo<Goal<I>>` for where clauses
    #[verifier::external_body]
    pub fn cast(self, interner: I) -> (r: Goal<I>) ensures r == goal_of_where_clause(self) { unimplemented!() }
}
impl<G: HasInterner> InEnvironment<G> {
    #[verifier::external_body]
    pub fn new(environment: &Environment<G::Interner>, goal: G) -> (r: Self)
        ensures r == (InEnvironment { environment: *environment, goal })
    { unimplemented!() }
}

/// what the inference table knows about lifetime variables
#[verifier::reject_recursive_types(I)]
pub struct TableView<I: Interner> {
    /// universe of every still-unbound variable
    pub universe: Map<EnaVariable<I>, UniverseIndex>,
    /// variables that have been bound, with their values
    pub bound: Map<EnaVariable<I>, InferenceValue<I>>,
    /// union-find classes merged so far (pairs unified with each other)
    pub unified: Seq<(EnaVariable<I>, EnaVariable<I>)>,
}
impl<I: Interner> EnaTable<I> {
    pub uninterp spec fn view(&self) -> TableView<I>;
    /// ena: unifying two unbound variables cannot fail
    #[verifier::external_body]
    pub fn unify_var_var(&mut self, a: EnaVariable<I>, b: EnaVariable<I>) -> (r: Result<(), ()>)
        ensures r is Ok, final(self).view().unified == old(self).view().unified.push((a, b)),
                final(self).view().bound == old(self).view().bound,
    { unimplemented!() }
    /// ena: binding an unbound variable cannot fail
    #[verifier::external_body]
    pub fn unify_var_value(&mut self, a: EnaVariable<I>, v: InferenceValue<I>) -> (r: Result<(), ()>)
        ensures r is Ok, final(self).view().bound == old(self).view().bound.insert(a, v),
                final(self).view().unified == old(self).view().unified,
    { unimplemented!() }
}
#[verifier::reject_recursive_types(I)]
pub struct InferenceTable<I: Interner> { pub unify: EnaTable<I> }
impl<I: Interner> InferenceTable<I> {
    pub uninterp spec fn spec_normalize(&self, l: Lifetime<I>) -> Option<Lifetime<I>>;
    #[verifier::external_body]
    pub fn universe_of_unbound_var(&mut self, var: EnaVariable<I>) -> (r: UniverseIndex)
        ensures final(self).unify.view() == old(self).unify.view(), r == old(self).unify.view().universe[var],
    { unimplemented!() }
    /// a fresh variable: unbound, in the given universe, unknown to the table so far
    #[verifier::external_body]
    pub fn new_variable(&mut self, ui: UniverseIndex) -> (r: EnaVariable<I>)
        ensures
            r == spec_fresh(old(self).unify.view()),
            !old(self).unify.view().universe.contains_key(r), !old(self).unify.view().bound.contains_key(r),
            final(self).unify.view().universe == old(self).unify.view().universe.insert(r, ui),
            final(self).unify.view().bound == old(self).unify.view().bound,
            final(self).unify.view().unified == old(self).unify.view().unified,
    { unimplemented!() }
    /// replaces a bound lifetime variable by its value; a value is never a bound variable
    #[verifier::external_body]
    pub fn normalize_lifetime_shallow(&mut self, interner: I, leaf: &Lifetime<I>) -> (r: Option<Lifetime<I>>)
        ensures final(self).unify.view() == old(self).unify.view(), r == old(self).spec_normalize(*leaf),
                // probing does not change what any lifetime normalizes to (ena: path compression only)
                forall|l: Lifetime<I>| #[trigger] final(self).spec_normalize(l) == old(self).spec_normalize(l),
    { unimplemented!() }
}

// ------------------------------------------------------- specification level
/// the variable ena hands out next (its next free index)
pub uninterp spec fn spec_fresh<I: Interner>(table: TableView<I>) -> EnaVariable<I>;
pub uninterp spec fn spec_relate_ty_ty<I: Interner>(goals: Seq<InEnvironment<Goal<I>>>, table: TableView<I>, env: Environment<I>, variance: Variance, a: Ty<I>, b: Ty<I>)
    -> (bool, Seq<InEnvironment<Goal<I>>>, TableView<I>);
/// the goal `<alias> == ty` in environment `env`
pub open spec fn alias_eq_goal<I: Interner>(env: Environment<I>, alias: AliasTy<I>, ty: Ty<I>) -> InEnvironment<Goal<I>> {
    InEnvironment { environment: env, goal: goal_of_alias_eq(AliasEq { alias, ty }) }
}
pub open spec fn outlives<I: Interner>(env: Environment<I>, a: Lifetime<I>, b: Lifetime<I>) -> InEnvironment<Goal<I>> {
    InEnvironment { environment: env, goal: goal_of_where_clause(WhereClause::LifetimeOutlives(LifetimeOutlives { a, b })) }
}

/// Lifetime requirements for relating `a` to `b` at a bare lifetime position of the given variance
/// (chalk's convention: a *contravariant* lifetime position requires `a: b`).
pub open spec fn required<I: Interner>(env: Environment<I>, variance: Variance, a: Lifetime<I>, b: Lifetime<I>) -> Seq<InEnvironment<Goal<I>>> {
    match variance {
        Variance::Contravariant => seq![outlives(env, a, b)],
        Variance::Covariant => seq![outlives(env, b, a)],
        Variance::Invariant => seq![outlives(env, a, b), outlives(env, b, a)],
    }
}

impl<'t, I: Interner> Unifier<'t, I> {
    pub closed spec fn goal_seq(self) -> Seq<InEnvironment<Goal<I>>> { self.goals@ }
    pub closed spec fn env(self) -> Environment<I> { *self.environment }
    pub closed spec fn tview(self) -> TableView<I> { (*self.table).unify.view() }

    pub closed spec fn normalized(self, l: Lifetime<I>) -> Lifetime<I> {
        match (*self.table).spec_normalize(l) { Some(n) => n, None => l }
    }

    /// HAVOC: the structural relation of two types (`relate_ty_ty`: reference patterns, generic zip; not extractable).
    /// Its outcome is an uninterpreted function of the unifier's state and of its arguments, so that a caller's
    /// contract can say exactly with which arguments, and on which state, it was invoked.
    #[verifier::external_body]
    fn relate_ty_ty(&mut self, variance: Variance, a: &Ty<I>, b: &Ty<I>) -> (r: Fallible<()>)
        ensures
            final(self).env() == old(self).env(),
            (r is Ok, final(self).goal_seq(), final(self).tview())
                == spec_relate_ty_ty(old(self).goal_seq(), old(self).tview(), old(self).env(), variance, *a, *b),
    { unimplemented!() }

// ------------------------------------------------------------- real functions
// (`relate_lifetime_lifetime` itself matches with reference patterns `(&LifetimeData::X(..), ..)`, which this
//  Verus rejects ("ref patterns"); it is not rewritten to fit — its two callees below carry the property.)
//@FN file=chalk-solve/src/infer/unify.rs within="^impl<'t, I: Interner> Unifier<'t, I>$" fn=push_lifetime_outlives_goals contract=push_goals path=Unifier::push_lifetime_outlives_goals
//@FN file=chalk-solve/src/infer/unify.rs within="^impl<'t, I: Interner> Unifier<'t, I>$" fn=unify_lifetime_var contract=unify_lifetime_var path=Unifier::unify_lifetime_var
//@FN file=chalk-solve/src/infer/unify.rs within="^impl<'t, I: Interner> Unifier<'t, I>$" fn=relate_alias_ty contract=relate_alias_ty path=Unifier::relate_alias_ty
//@FN file=chalk-solve/src/infer/unify.rs within="^impl<'t, I: Interner> Unifier<'t, I>$" fn=generalize_lifetime contract=generalize_lifetime path=Unifier::generalize_lifetime
//@FN file=chalk-solve/src/infer/unify.rs within="^impl<'t, I: Interner> Unifier<'t, I>$" fn=generalize_const contract=generalize_const path=Unifier::generalize_const
//@FN file=chalk-solve/src/infer/unify.rs within="^impl<'t, I: Interner> Unifier<'t, I>$" fn=relate_lifetime_lifetime refpat=deref contract=relate_lifetime_lifetime path=Unifier::relate_lifetime_lifetime
}

//@CONTRACT push_goals
    ensures
        final(self).goal_seq() == old(self).goal_seq() + required(old(self).env(), variance, a, b),
        final(self).env() == old(self).env(),
        final(self).tview() == old(self).tview(),
//@END
//@CONTRACT generalize_lifetime
    ensures
        final(self).goal_seq() == old(self).goal_seq(), final(self).env() == old(self).env(),
        // C29 / C14: a lifetime at an INVARIANT position (or one bound inside the type) is kept as it is ...
        (lifetime_data(*lifetime) is BoundVar || variance is Invariant) ==> r == *lifetime && final(self).tview() == old(self).tview(),
        // ... anywhere else it is replaced by a FRESH unknown of the variable's universe, to be related to it later
        !(lifetime_data(*lifetime) is BoundVar || variance is Invariant) ==> {
            let x = spec_fresh(old(self).tview());
            &&& r == var_lifetime(x)
            &&& final(self).tview().universe == old(self).tview().universe.insert(x, universe_index)
            &&& final(self).tview().bound == old(self).tview().bound && final(self).tview().unified == old(self).tview().unified
        },
//@END
//@CONTRACT generalize_const
    ensures
        final(self).goal_seq() == old(self).goal_seq(), final(self).env() == old(self).env(),
        const_data(*const_).value is BoundVar ==> r == *const_ && final(self).tview() == old(self).tview(),
        // any other constant is replaced by a fresh unknown of the same type in the variable's universe
        !(const_data(*const_).value is BoundVar) ==> {
            let x = spec_fresh(old(self).tview());
            &&& r == var_const(x, const_data(*const_).ty)
            &&& final(self).tview().universe == old(self).tview().universe.insert(x, universe_index)
            &&& final(self).tview().bound == old(self).tview().bound && final(self).tview().unified == old(self).tview().unified
        },
//@END
//@CONTRACT relate_alias_ty
    ensures
        final(self).env() == old(self).env(),
        // C07: at an invariant position the projection must EQUAL the type: exactly that goal is recorded, nothing else happens
        variance is Invariant ==> r is Ok
            && final(self).goal_seq() == old(self).goal_seq().push(alias_eq_goal(old(self).env(), *alias, *ty))
            && final(self).tview() == old(self).tview(),
        // C29: at a co-/contravariant position the projection equals a FRESH unknown of the root universe, and that
        // unknown is then related to the type at the same variance (on exactly that state)
        !(variance is Invariant) ==> {
            let x = spec_fresh(old(self).tview());
            (r is Ok, final(self).goal_seq(), final(self).tview())
                    == spec_relate_ty_ty(
                        old(self).goal_seq().push(alias_eq_goal(old(self).env(), *alias, var_ty(x))),
                        TableView { universe: old(self).tview().universe.insert(x, UniverseIndex { counter: 0 }), bound: old(self).tview().bound, unified: old(self).tview().unified },
                        old(self).env(), variance, var_ty(x), *ty)
        },
//@END
//@CONTRACT unify_lifetime_var
    ensures
        r is Ok,
        lifetime_var_effect(*old(self), *final(self), variance, var, *value, value_ui),
        final(self).env() == old(self).env(),
        // C14: the unknown is bound only when the relation is an equality AND its universe can name the value
        (variance is Invariant && old(self).tview().universe[ena_of::<I>(var)].spec_can_see(value_ui)) ==> {
            &&& final(self).tview().bound == old(self).tview().bound.insert(ena_of::<I>(var), value_of_lifetime(*value))
            &&& final(self).goal_seq() == old(self).goal_seq()
        },
        // otherwise nothing is bound and exactly the variance-dictated requirements are recorded
        !(variance is Invariant && old(self).tview().universe[ena_of::<I>(var)].spec_can_see(value_ui)) ==> {
            &&& final(self).tview() == old(self).tview()
            &&& final(self).goal_seq() == old(self).goal_seq() + required(old(self).env(), variance, var_lifetime(ena_of::<I>(var)), *value)
        },
//@END

//@CONTRACT relate_lifetime_lifetime
    requires
        // callers' obligation (the code panics otherwise): no bound variable / phantom reaches unification
        !(lifetime_data(old(self).normalized(*a)) is BoundVar), !(lifetime_data(old(self).normalized(*b)) is BoundVar),
        !(lifetime_data(old(self).normalized(*a)) is Phantom), !(lifetime_data(old(self).normalized(*b)) is Phantom),
    ensures
        r is Ok,
        final(self).env() == old(self).env(),
        rll_effect(*old(self), *final(self), variance, old(self).normalized(*a), old(self).normalized(*b)),
//@END

/// C29 at a bare lifetime position, stated over the NORMALIZED lifetimes `a`, `b` (known values substituted):
/// two unknowns are unified; an unknown against a known lifetime goes through `unify_lifetime_var` with the
/// variance as given when the unknown is on the left and INVERTED (arguments swapped) when it is on the right,
/// in the universe of the placeholder (the root for 'static / erased / error); two known lifetimes record
/// exactly the variance-dictated outlives requirements (which may be left out when they are the same lifetime); an error lifetime
/// relates to anything with no requirement.
pub open spec fn rll_effect<'t, I: Interner>(pre: Unifier<'t, I>, post: Unifier<'t, I>, variance: Variance, a: Lifetime<I>, b: Lifetime<I>) -> bool {
    let same = post.tview() == pre.tview() && post.goal_seq() == pre.goal_seq();
    match (lifetime_data(a), lifetime_data(b)) {
        (LifetimeData::InferenceVar(va), LifetimeData::InferenceVar(vb)) =>
            post.goal_seq() == pre.goal_seq() && post.tview().bound == pre.tview().bound
            && post.tview().unified == pre.tview().unified.push((ena_of::<I>(va), ena_of::<I>(vb))),
        (LifetimeData::InferenceVar(va), LifetimeData::Placeholder(p)) => lifetime_var_effect(pre, post, variance, va, b, p.ui),
        (LifetimeData::Placeholder(p), LifetimeData::InferenceVar(vb)) => lifetime_var_effect(pre, post, variance.spec_invert(), vb, a, p.ui),
        (LifetimeData::InferenceVar(va), _) => lifetime_var_effect(pre, post, variance, va, b, UniverseIndex { counter: 0 }),
        (_, LifetimeData::InferenceVar(vb)) => lifetime_var_effect(pre, post, variance.spec_invert(), vb, a, UniverseIndex { counter: 0 }),
        (LifetimeData::Error, _) => same,
        (_, LifetimeData::Error) => same,
        (LifetimeData::Static, LifetimeData::Static) => same,
        (LifetimeData::Erased, LifetimeData::Erased) => same,
        // `'x: 'x` holds trivially: for one and the same lifetime, recording nothing and recording the reflexive
        // requirements are equivalent (the property speaks of requirements up to equivalence)
        _ => (a == b && same)
            || (post.tview() == pre.tview() && post.goal_seq() == pre.goal_seq() + required(pre.env(), variance, a, b)),
    }
}

/// the contract of `unify_lifetime_var`, as a relation between the unifier before and after
pub open spec fn lifetime_var_effect<'t, I: Interner>(pre: Unifier<'t, I>, post: Unifier<'t, I>, variance: Variance, var: InferenceVar, value: Lifetime<I>, value_ui: UniverseIndex) -> bool {
    let binds = variance is Invariant && pre.tview().universe[ena_of::<I>(var)].spec_can_see(value_ui);
    &&& post.env() == pre.env()
    &&& binds ==> post.tview().bound == pre.tview().bound.insert(ena_of::<I>(var), value_of_lifetime(value)) && post.goal_seq() == pre.goal_seq()
    &&& !binds ==> post.tview() == pre.tview() && post.goal_seq() == pre.goal_seq() + required(pre.env(), variance, var_lifetime(ena_of::<I>(var)), value)
}

// ---------------------------------------------------- lemmas over the contracts
/// Rust reference: `&'a T <: &'b T` requires `'a: 'b` (and `&'a T :> &'b T` requires `'b: 'a`).
/// The `Ref` / `Dyn` arms of `relate_ty_ty` relate the two lifetimes at
/// `ambient.xform(Contravariant)`; composed with the table above this gives the rule.
pub proof fn lemma_reference_lifetime_rule<I: Interner>(env: Environment<I>, a: Lifetime<I>, b: Lifetime<I>)
    ensures
        required(env, Variance::Covariant.spec_xform(Variance::Contravariant), a, b) == seq![outlives(env, a, b)],
        required(env, Variance::Contravariant.spec_xform(Variance::Contravariant), a, b) == seq![outlives(env, b, a)],
        required(env, Variance::Invariant.spec_xform(Variance::Contravariant), a, b) == seq![outlives(env, a, b), outlives(env, b, a)],
{
}

/// C15 (argument order): relating (a, b) at v records the same requirements as relating (b, a) at v.invert()
pub proof fn lemma_required_symmetric<I: Interner>(env: Environment<I>, v: Variance, a: Lifetime<I>, b: Lifetime<I>)
    ensures required(env, v, a, b).to_set() == required(env, v.spec_invert(), b, a).to_set(),
{
    let x = required(env, v, a, b);
    let y = required(env, v.spec_invert(), b, a);
    assert forall|g| x.contains(g) <==> y.contains(g) by {
        if v is Invariant {
            assert(x[0] == y[1] && x[1] == y[0]);
            if x.contains(g) { let i = choose|i: int| 0 <= i < x.len() && x[i] == g; assert(y[1 - i] == g); }
            if y.contains(g) { let i = choose|i: int| 0 <= i < y.len() && y[i] == g; assert(x[1 - i] == g); }
        } else {
            assert(x[0] == y[0]);
            if x.contains(g) { let i = choose|i: int| 0 <= i < x.len() && x[i] == g; assert(y[i] == g); }
            if y.contains(g) { let i = choose|i: int| 0 <= i < y.len() && y[i] == g; assert(x[i] == g); }
        }
    }
    assert(x.to_set() =~= y.to_set());
}

} // verus!
// `panic!("..{:?}", a)` in the extracted text needs Debug; formatting is not verified code
impl<I: Interner> core::fmt::Debug for Lifetime<I> {
    fn fmt(&self, _f: &mut core::fmt::Formatter<'_>) -> core::fmt::Result { Ok(()) }
}
fn main() {}
