// Unit V15 `priorities_insert` — Verus.  C19, modular step: the contract of
// `SpecializationPriorities::insert` that unit K13 assumes when it checks
// `set_priorities` (kani::stub):
//     stored'(impl) == max(stored(impl), p);  every other impl untouched;
//     result == "the stored priority of impl changed"
// and of `priority` (defined for every impl that was inserted).
// `indexmap::IndexMap` is abstract: a finite map view with the assumed contracts of
// `get`, `insert`, `entry`/`Entry::{Occupied, Vacant}` and indexing.
use vstd::prelude::*;
verus! {

pub trait Interner: Sized + Copy { type DefId: Copy; }

// real definitions (extracted)
//@TYPE file=chalk-ir/src/lib.rs kind=struct name=ImplId attrs="#[verifier::reject_recursive_types(I)]"
//@TYPE file=chalk-solve/src/coherence.rs kind=struct name=SpecializationPriority attrs="#[derive(Clone, Copy)]"
//@TYPE file=chalk-solve/src/coherence.rs kind=struct name=SpecializationPriorities attrs="#[verifier::reject_recursive_types(I)]"

impl<I: Interner> Copy for ImplId<I> {}
impl<I: Interner> Clone for ImplId<I> { #[verifier::external_body] fn clone(&self) -> (r: Self) ensures r == *self { unimplemented!() } }

impl SpecializationPriority { pub closed spec fn val(self) -> usize { self.0 } }
// `#[derive(PartialOrd, Ord, PartialEq, Eq)]` on the newtype over usize: the order of the wrapped number
impl vstd::std_specs::cmp::PartialEqSpecImpl for SpecializationPriority {
    open spec fn obeys_eq_spec() -> bool { true }
    open spec fn eq_spec(&self, other: &Self) -> bool { self.val() == other.val() }
}
impl PartialEq for SpecializationPriority { #[verifier::external_body] fn eq(&self, other: &Self) -> bool { unimplemented!() } }
impl vstd::std_specs::cmp::PartialOrdSpecImpl for SpecializationPriority {
    open spec fn obeys_partial_cmp_spec() -> bool { true }
    open spec fn partial_cmp_spec(&self, other: &Self) -> Option<core::cmp::Ordering> {
        if self.val() < other.val() { Some(core::cmp::Ordering::Less) } else if self.val() == other.val() { Some(core::cmp::Ordering::Equal) } else { Some(core::cmp::Ordering::Greater) }
    }
}
impl PartialOrd for SpecializationPriority { #[verifier::external_body] fn partial_cmp(&self, other: &Self) -> Option<core::cmp::Ordering> { unimplemented!() } }

// ---- assumed contract of the `indexmap` dependency
#[verifier::external_body]
#[verifier::reject_recursive_types(K)]
#[verifier::reject_recursive_types(V)]
pub struct IndexMap<K, V> { _p: core::marker::PhantomData<(K, V)> }

impl<K, V> IndexMap<K, V> {
    pub uninterp spec fn view(&self) -> Map<K, V>;

    #[verifier::external_body]
    pub fn new() -> (r: Self) ensures r.view() == Map::<K, V>::empty() { unimplemented!() }

    #[verifier::external_body]
    pub fn get(&self, key: &K) -> (r: Option<&V>)
        ensures match r { Some(v) => self.view().contains_key(*key) && *v == self.view()[*key], None => !self.view().contains_key(*key) }
    { unimplemented!() }

    #[verifier::external_body]
    pub fn insert(&mut self, key: K, value: V) -> (r: Option<V>)
        ensures
            final(self).view() == old(self).view().insert(key, value),
            match r { Some(v) => old(self).view().contains_key(key) && v == old(self).view()[key], None => !old(self).view().contains_key(key) },
    { unimplemented!() }
}

// the entry API of the same dependency (not used by the pinned code; modelled so that a rewrite of
// `insert` in terms of it is still decided instead of being UNDECIDED for an unknown callee)
#[verifier::reject_recursive_types(K)]
#[verifier::reject_recursive_types(V)]
pub struct OccupiedEntry<'a, K, V> { pub map: &'a mut IndexMap<K, V>, pub key: K }
#[verifier::reject_recursive_types(K)]
#[verifier::reject_recursive_types(V)]
pub struct VacantEntry<'a, K, V> { pub map: &'a mut IndexMap<K, V>, pub key: K }
#[verifier::reject_recursive_types(K)]
#[verifier::reject_recursive_types(V)]
pub enum Entry<'a, K, V> { Occupied(OccupiedEntry<'a, K, V>), Vacant(VacantEntry<'a, K, V>) }

impl<K, V> IndexMap<K, V> {
    #[verifier::external_body]
    pub fn entry(&mut self, key: K) -> (r: Entry<'_, K, V>)
        ensures
            match r {
                Entry::Occupied(e) => old(self).view().contains_key(key) && e.key == key && *e.map == *old(self) && *final(e.map) == *final(self),
                Entry::Vacant(e) => !old(self).view().contains_key(key) && e.key == key && *e.map == *old(self) && *final(e.map) == *final(self),
            },
    { unimplemented!() }
}
impl<'a, K, V> OccupiedEntry<'a, K, V> {
    #[verifier::external_body]
    pub fn get(&self) -> (r: &V)
        requires old(self.map).view().contains_key(self.key),
        ensures *r == old(self.map).view()[self.key],
    { unimplemented!() }
    #[verifier::external_body]
    pub fn insert(&mut self, value: V) -> (r: V)
        requires old(self).map.view().contains_key(old(self).key),
        ensures final(self).map.view() == old(self).map.view().insert(old(self).key, value), final(self).key == old(self).key,
                *final(final(self).map) == *final(old(self).map),
    { unimplemented!() }
}
impl<'a, K, V> VacantEntry<'a, K, V> {
    #[verifier::external_body]
    pub fn insert(self, value: V) -> (r: &'a mut V)
        ensures final(self.map).view() == old(self.map).view().insert(self.key, value),
    { unimplemented!() }
}

// ------------------------------------------------------- specification level
impl<I: Interner> SpecializationPriorities<I> {
    pub closed spec fn stored(self) -> Map<ImplId<I>, SpecializationPriority> { self.map.view() }

// ------------------------------------------------------------- real functions
//@FN file=chalk-solve/src/coherence.rs within="^impl<I: Interner> SpecializationPriorities<I>$" fn=new contract=new path=SpecializationPriorities::new
//@FN file=chalk-solve/src/coherence.rs within="^impl<I: Interner> SpecializationPriorities<I>$" fn=insert contract=insert path=SpecializationPriorities::insert
}

//@CONTRACT new
    ensures r.stored() == Map::<ImplId<I>, SpecializationPriority>::empty(),
//@END
//@CONTRACT insert
    ensures
        // the higher priority is kept, every other impl is untouched
        final(self).stored() == old(self).stored().insert(impl_id,
            if old(self).stored().contains_key(impl_id) && old(self).stored()[impl_id].val() >= p.val() { old(self).stored()[impl_id] } else { p }),
        // the result says whether the stored priority of `impl_id` changed — `set_priorities` prunes its walk on `false`
        r == !(old(self).stored().contains_key(impl_id) && old(self).stored()[impl_id].val() >= p.val()),
//@END

} // verus!
fn main() {}
