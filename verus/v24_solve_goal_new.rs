// Unit V24 `rec_solve_goal_new` — Verus.  C10 / C01: the new-goal branch of `RecursiveContext::solve_goal`
// (generic in goal type K and answer type V).  For a goal that is neither cached nor in the search graph:
//   (F1) the caller's minimums are lowered to the minimums of the goal's LAST iteration,
//   (F2) the answer returned is what that last iteration produced (the same with and without a cache),
//   (F3) if those minimums do not reach below the goal's own depth-first number (its SCC is complete), the
//        goal's node and everything above it leave the search graph: made permanent in ONE batch that starts
//        at the goal and carries the returned answer when there is a cache, discarded when there is none,
//   (F4) otherwise NOTHING is made permanent by this call: the node stays in the graph, off the stack,
//        with the returned answer and with `links` = those minimums, so that every later hit lowers its
//        caller's minimums (unit V18, clause B).
// This is "move_to_cache only after an SCC completes / rollback_to when caching is disabled" from the
// anchors of C10, and the other half of "a result that relied on a provisional answer is never cached".
// `solve_new_subgoal` is a callee here under the contract PROVED by unit V23 (+ assumed frame: it never
// shortens the graph below the goal's node).
use vstd::prelude::*;
use std::fmt::Debug;
use std::hash::Hash;
verus! {
broadcast use {callback_facts::clone_keeps_behaviour, callback_facts::clone_keeps_callable};


#[derive(Clone, Copy)]
pub struct DepthFirstNumber { pub index: usize }
impl DepthFirstNumber {
    pub const MAX: DepthFirstNumber = DepthFirstNumber { index: usize::MAX };
}
#[derive(Clone, Copy)]
pub struct StackDepth { pub depth: usize }
impl vstd::std_specs::cmp::PartialEqSpecImpl for DepthFirstNumber {
    open spec fn obeys_eq_spec() -> bool { true }
    open spec fn eq_spec(&self, other: &Self) -> bool { self.index == other.index }
}
impl PartialEq for DepthFirstNumber { #[verifier::external_body] fn eq(&self, other: &Self) -> bool { unimplemented!() } }
// `#[derive(PartialOrd, Ord)]` on DepthFirstNumber { index }: the order of the index
impl vstd::std_specs::cmp::PartialOrdSpecImpl for DepthFirstNumber {
    open spec fn obeys_partial_cmp_spec() -> bool { true }
    open spec fn partial_cmp_spec(&self, other: &Self) -> Option<core::cmp::Ordering> {
        if self.index < other.index { Some(core::cmp::Ordering::Less) } else if self.index == other.index { Some(core::cmp::Ordering::Equal) } else { Some(core::cmp::Ordering::Greater) }
    }
}
impl PartialOrd for DepthFirstNumber { #[verifier::external_body] fn partial_cmp(&self, other: &Self) -> Option<core::cmp::Ordering> { unimplemented!() } }
// `impl Add<usize> for DepthFirstNumber` (search_graph.rs): index + v
impl core::ops::Add<usize> for DepthFirstNumber {
    type Output = DepthFirstNumber;
    #[verifier::external_body]
    fn add(self, v: usize) -> (r: DepthFirstNumber) ensures r.index as int == self.index as int + v as int { unimplemented!() }
}
impl vstd::std_specs::ops::AddSpecImpl<usize> for DepthFirstNumber {
    open spec fn obeys_add_spec() -> bool { false }
    open spec fn add_req(self, v: usize) -> bool { self.index as int + v as int <= usize::MAX as int }
    open spec fn add_spec(self, v: usize) -> DepthFirstNumber { self }
}

//@TYPE file=chalk-recursive/src/fixed_point.rs kind=struct name=Minimums attrs="#[derive(Clone, Copy)]"
impl Minimums {
    pub closed spec fn pos(self) -> usize { self.positive.index }
    pub closed spec fn at(d: DepthFirstNumber) -> Minimums { Minimums { positive: d } }
    /// `self.positive = min(self.positive, minimums.positive)` (std::cmp::min on the derived order of DepthFirstNumber)
    #[verifier::external_body]
    pub fn update_from(&mut self, minimums: Minimums)
        ensures final(self).pos() == if old(self).pos() <= minimums.pos() { old(self).pos() } else { minimums.pos() }
    { unimplemented!() }
}

#[verifier::reject_recursive_types(K)]
#[verifier::reject_recursive_types(V)]
pub struct Node<K, V> { pub goal: K, pub solution: V, pub stack_depth: Option<StackDepth>, pub links: Minimums }

/// ghost: one run of `solve_iteration` for `goal`
#[verifier::reject_recursive_types(K)]
#[verifier::reject_recursive_types(V)]
pub struct Iteration<K, V> {
    pub goal: K,
    /// the provisional answer stored for `goal` while the iteration ran
    pub assumed: V,
    pub produced: V,
    pub minimums: Minimums,
    /// the cycle flags of the stack when the iteration returned
    pub flags_after: Seq<bool>,
    /// how many batches of nodes had been moved to the permanent cache when the iteration returned
    pub moved_after: nat,
}

#[verifier::external_body]
#[verifier::reject_recursive_types(K)]
#[verifier::reject_recursive_types(V)]
pub struct SearchGraph<K, V> { _p: core::marker::PhantomData<(K, V)> }
impl<K, V> SearchGraph<K, V> {
    pub uninterp spec fn nodes(&self) -> Seq<Node<K, V>>;
    pub uninterp spec fn spec_lookup(&self, goal: K) -> Option<DepthFirstNumber>;
    /// GHOST: the iterations run so far on this graph, oldest first
    pub uninterp spec fn history(&self) -> Seq<Iteration<K, V>>;
    /// GHOST: how many times `move_to_cache` made nodes of this graph permanent
    pub uninterp spec fn moved(&self) -> nat;
    #[verifier::external_body]
    pub fn lookup(&self, goal: &K) -> (r: Option<DepthFirstNumber>) ensures r == self.spec_lookup(*goal) { unimplemented!() }
    /// search_graph.rs: appends a node whose `links` point at itself
    #[verifier::external_body]
    pub fn insert(&mut self, goal: &K, stack_depth: StackDepth, solution: V) -> (r: DepthFirstNumber)
        ensures
            r.index == old(self).nodes().len(),
            final(self).nodes() == old(self).nodes().push(Node { goal: *goal, solution, stack_depth: Some(stack_depth), links: Minimums::at(r) }),
            final(self).spec_lookup(*goal) == Some(r),
            final(self).history() == old(self).history(), final(self).moved() == old(self).moved(),
    { unimplemented!() }
    /// search_graph.rs: removes the nodes dfn.. and makes their answers permanent (the cache has interior mutability)
    #[verifier::external_body]
    pub fn move_to_cache(&mut self, dfn: DepthFirstNumber, cache: &Cache<K, V>)
        ensures
            final(self).nodes() == old(self).nodes().take(dfn.index as int),
            final(self).history() == old(self).history(), final(self).moved() == old(self).moved() + 1,
            final(self).last_moved() == old(self).nodes().skip(dfn.index as int),
    { unimplemented!() }
    /// GHOST: the nodes made permanent by the latest `move_to_cache`
    pub uninterp spec fn last_moved(&self) -> Seq<Node<K, V>>;
    /// search_graph.rs: truncates `nodes` to `dfn` and forgets the goals of the removed nodes
    #[verifier::external_body]
    pub fn rollback_to(&mut self, dfn: DepthFirstNumber)
        ensures
            final(self).nodes() == old(self).nodes().take(dfn.index as int),
            final(self).history() == old(self).history(), final(self).moved() == old(self).moved(),
            forall|g: K| (#[trigger] old(self).spec_lookup(g)) matches Some(d) && d.index < dfn.index ==> final(self).spec_lookup(g) == old(self).spec_lookup(g),
    { unimplemented!() }
}
impl<K, V> core::ops::Index<DepthFirstNumber> for SearchGraph<K, V> {
    type Output = Node<K, V>;
    #[verifier::external_body]
    fn index(&self, i: DepthFirstNumber) -> (r: &Node<K, V>) ensures *r == self.nodes()[i.index as int] { unimplemented!() }
}
// (no precondition: the real impls index a Vec and panic out of range; in-range is the callers' invariant, not verified here)
impl<K, V> vstd::std_specs::core::IndexSpecImpl<DepthFirstNumber> for SearchGraph<K, V> {
    open spec fn index_req(&self, i: &DepthFirstNumber) -> bool { true }
}
impl<K, V> core::ops::IndexMut<DepthFirstNumber> for SearchGraph<K, V> {
    #[verifier::external_body]
    fn index_mut(&mut self, i: DepthFirstNumber) -> (r: &mut Node<K, V>)
        ensures
            *r == old(self).nodes()[i.index as int],
            final(self).nodes() == old(self).nodes().update(i.index as int, *final(r)),
            final(self).history() == old(self).history(), final(self).moved() == old(self).moved(),
            forall|g: K| final(self).spec_lookup(g) == old(self).spec_lookup(g),
    { unimplemented!() }
}

//@TYPE file=chalk-recursive/src/fixed_point/stack.rs kind=struct name=StackEntry
impl StackEntry {
    pub closed spec fn flag(self) -> bool { self.cycle }
    /// proved by unit V23
    #[verifier::external_body]
    pub(crate) fn flag_cycle(&mut self) ensures final(self).flag() { unimplemented!() }
}

#[verifier::external_body]
pub(crate) struct Stack { _p: () }
impl Stack {
    /// the cycle flag of every entry, bottom first
    pub uninterp spec fn flags(&self) -> Seq<bool>;
    pub uninterp spec fn spec_mixed(&self, depth: StackDepth) -> bool;
    #[verifier::external_body]
    pub fn mixed_inductive_coinductive_cycle_from(&self, depth: StackDepth) -> (r: bool) ensures r == self.spec_mixed(depth) { unimplemented!() }
    /// proved by unit K11 (Kani): one more entry, flag clear
    #[verifier::external_body]
    pub fn push(&mut self, coinductive_goal: bool) -> (r: StackDepth)
        ensures r.depth == old(self).flags().len(), final(self).flags() == old(self).flags().push(false)
    { unimplemented!() }
    #[verifier::external_body]
    pub fn pop(&mut self, depth: StackDepth) { unimplemented!() }
}
impl core::ops::Index<StackDepth> for Stack {
    type Output = StackEntry;
    #[verifier::external_body]
    fn index(&self, d: StackDepth) -> (r: &StackEntry) ensures r.flag() == self.flags()[d.depth as int] { unimplemented!() }
}
impl vstd::std_specs::core::IndexSpecImpl<StackDepth> for Stack {
    open spec fn index_req(&self, i: &StackDepth) -> bool { true }
}
impl core::ops::IndexMut<StackDepth> for Stack {
    #[verifier::external_body]
    fn index_mut(&mut self, d: StackDepth) -> (r: &mut StackEntry)
        ensures
            r.flag() == old(self).flags()[d.depth as int],
            final(self).flags() == old(self).flags().update(d.depth as int, final(r).flag()),
    { unimplemented!() }
}

#[verifier::external_body]
#[verifier::reject_recursive_types(K)]
#[verifier::reject_recursive_types(V)]
pub struct Cache<K, V> { _p: core::marker::PhantomData<(K, V)> }
impl<K, V> Cache<K, V> {
    pub uninterp spec fn spec_get(&self, goal: K) -> Option<V>;
    #[verifier::external_body]
    pub fn get(&self, goal: &K) -> (r: Option<V>) ensures r == self.spec_get(*goal) { unimplemented!() }
}

//@TYPE file=chalk-recursive/src/fixed_point.rs kind=struct name=RecursiveContext attrs="#[verifier::reject_recursive_types(K)] #[verifier::reject_recursive_types(V)]"


pub trait SolverStuff<K, V>: Copy where K: Hash + Eq + Debug + Clone, V: Debug + Clone {
    spec fn spec_error_value(self) -> V;
    fn is_coinductive_goal(self, goal: &K) -> bool;
    fn initial_value(self, goal: &K, coinductive_goal: bool) -> V;
    fn error_value(self) -> (r: V) ensures r == self.spec_error_value();
}

impl<K, V> RecursiveContext<K, V> where K: Hash + Eq + Debug + Clone, V: Debug + Clone {
    pub closed spec fn graph(self) -> SearchGraph<K, V> { self.search_graph }
    pub closed spec fn stk(self) -> Stack { self.stack }
    pub closed spec fn has_cache(self) -> bool { self.cache is Some }
    pub closed spec fn cached(self, goal: K) -> Option<V> {
        match self.cache { Some(c) => c.spec_get(goal), None => None }
    }

    /// neither cached nor in the search graph
    pub closed spec fn is_new(self, goal: K) -> bool { self.cached(goal) is None && self.graph().spec_lookup(goal) is None }
    /// the latest iteration in the ghost history
    pub closed spec fn lastit(self) -> Iteration<K, V> { self.graph().history().last() }

    /// the fixed-point loop: contract proved by unit V23 on the verbatim text
    #[verifier::external_body]
    fn solve_new_subgoal(&mut self, canonical_goal: &K, depth: StackDepth, dfn: DepthFirstNumber, solver_stuff: impl SolverStuff<K, V>, should_continue: impl std::ops::Fn() -> bool + Clone) -> (r: Minimums)
        requires
            old(self).graph().spec_lookup(*canonical_goal) == Some(dfn),
            (dfn.index as int) < old(self).graph().nodes().len(),
            (depth.depth as int) < old(self).stk().flags().len(),
            dfn.index < usize::MAX,
        ensures
            final(self).graph().history().len() > 0,
            final(self).graph().history().last().goal == *canonical_goal,
            final(self).graph().nodes()[dfn.index as int].solution == final(self).graph().history().last().produced,
            r == final(self).graph().history().last().minimums,
            final(self).graph().spec_lookup(*canonical_goal) == Some(dfn),
            (dfn.index as int) < final(self).graph().nodes().len(),
            final(self).graph().nodes()[dfn.index as int].goal == old(self).graph().nodes()[dfn.index as int].goal,
            final(self).graph().moved() == final(self).graph().history().last().moved_after,
            final(self).has_cache() == old(self).has_cache(),
    { unimplemented!() }

// ------------------------------------------------------------- real function
//@FN file=chalk-recursive/src/fixed_point.rs within="^impl<K, V> RecursiveContext<K, V> where" fn=solve_goal contract=solve_goal_new path=RecursiveContext::solve_goal
}

//@CONTRACT solve_goal_new
    requires
        // `V::clone` returns an equal value (the derived Clone of the answer type)
        forall|a: V, b: V| call_ensures(V::clone, (&a,), b) ==> a == b,
        // the caller's callback may be called
        should_continue.requires(()),
        // machine arithmetic: the graph holds fewer than usize::MAX nodes
        old(self).graph().nodes().len() < usize::MAX,
    ensures
        old(self).is_new(*goal) ==> final(self).graph().history().len() > 0 && final(self).lastit().goal == *goal,
        // (F1) the caller's minimums are lowered to those of the goal's last iteration
        old(self).is_new(*goal) ==> final(minimums).pos() == (if old(minimums).pos() <= final(self).lastit().minimums.pos() { old(minimums).pos() } else { final(self).lastit().minimums.pos() }),
        // (F2) the answer is what the last iteration produced
        old(self).is_new(*goal) ==> r == final(self).lastit().produced,
        // (F3) SCC complete: the node leaves the graph ...
        old(self).is_new(*goal) && final(self).lastit().minimums.pos() >= old(self).graph().nodes().len()
            ==> final(self).graph().nodes().len() == old(self).graph().nodes().len(),
        // ... cached in one batch headed by this goal and carrying the returned answer,
        old(self).is_new(*goal) && final(self).lastit().minimums.pos() >= old(self).graph().nodes().len() && old(self).has_cache()
            && (forall|b: bool| should_continue.ensures((), b) ==> b)      // the caller does not ask to stop
            ==> final(self).graph().moved() == final(self).lastit().moved_after + 1
                && final(self).graph().last_moved().len() > 0
                && final(self).graph().last_moved()[0].goal == *goal
                && final(self).graph().last_moved()[0].solution == r
                && final(self).graph().last_moved()[0].stack_depth is None,
        // ... or discarded when caching is disabled, or when the caller has asked to stop (C11: an interrupted solve leaves
        // only provisional answers)
        old(self).is_new(*goal) && final(self).lastit().minimums.pos() >= old(self).graph().nodes().len()
            && (!old(self).has_cache() || (forall|b: bool| should_continue.ensures((), b) ==> !b))
            ==> final(self).graph().moved() == final(self).lastit().moved_after,
        // (F4) SCC incomplete: nothing becomes permanent; the node stays, provisional, with its links recorded
        old(self).is_new(*goal) && final(self).lastit().minimums.pos() < old(self).graph().nodes().len()
            ==> final(self).graph().moved() == final(self).lastit().moved_after
                && final(self).graph().nodes().len() > old(self).graph().nodes().len()
                && final(self).graph().nodes()[old(self).graph().nodes().len() as int].solution == r
                && final(self).graph().nodes()[old(self).graph().nodes().len() as int].links == final(self).lastit().minimums
                && final(self).graph().nodes()[old(self).graph().nodes().len() as int].stack_depth is None,
//@END

} // verus!
pub mod callback_facts {
use vstd::prelude::*;
verus! {
/// ASSUMED: cloning the caller's callback gives a callback that behaves the same (the derived / closure `Clone`)
pub broadcast axiom fn clone_keeps_behaviour<F: core::ops::Fn() -> bool + Clone>(f: &F, g: F, b: bool)
    requires #[trigger] call_ensures(F::clone, (f,), g), #[trigger] g.ensures((), b),
    ensures f.ensures((), b);
pub broadcast axiom fn clone_keeps_callable<F: core::ops::Fn() -> bool + Clone>(f: &F, g: F)
    requires #[trigger] call_ensures(F::clone, (f,), g), f.requires(()),
    ensures g.requires(());
}
}
fn main() {}
