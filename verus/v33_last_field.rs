// Unit V33 `last_field` — Verus.  C08: `last_field_of_struct` (chalk-solve/src/clauses/builtin_traits.rs), the helper
// that units V11 / V29 use under an assumed contract: for a STRUCT it returns the type of the LAST field of the LAST
// (only) variant with the struct's arguments substituted, `None` when there is no field; for an enum or a union `None`.
// The two closures are annotated in place (edit I5: parameter types, result name, ensures); their bodies are the tree's.
// `Binders` is abstract: `skip()` is the value under the binders, `vars()` the variables they bind.
use vstd::prelude::*;
verus! {

pub trait Interner: Sized + Copy { type DefId: Copy; }
pub trait HasInterner { type Interner: Interner; }
macro_rules! abstract_ty {
    ($($n:ident),*) => { verus! { $(
        #[verifier::external_body]
        #[verifier::reject_recursive_types(I)]
        pub struct $n<I: Interner> { _p: core::marker::PhantomData<I> }
    )* } }
}
abstract_ty!(Ty, Substitution, AdtId, WhereClause);
// chalk-ir: `#[derive(Copy, Clone, ..)] pub struct AdtId<I: Interner>(pub I::InternedAdtId);`
impl<I: Interner> Copy for AdtId<I> {}
impl<I: Interner> Clone for AdtId<I> { #[verifier::external_body] fn clone(&self) -> (r: Self) ensures r == *self { unimplemented!() } }
//@CLONE_EQ generics="I: Interner" type="Ty<I>"
pub mod chalk_ir { pub use super::AdtId; }

#[verifier::external_body]
#[verifier::reject_recursive_types(T)]
pub struct Binders<T> { _p: core::marker::PhantomData<T> }
pub type QuantifiedWhereClause<I> = Binders<WhereClause<I>>;
/// the list of bound variable kinds of a `Binders` (abstract)
#[verifier::external_body]
pub struct BinderVars { _p: () }
/// `value` with the variables `vars` bind replaced by the arguments `p`
pub uninterp spec fn spec_substitute<I: Interner, T>(vars: BinderVars, value: T, p: Substitution<I>) -> T;
impl<T> Binders<T> {
    /// the value under the binders (`skip_binders`)
    pub uninterp spec fn skip(self) -> T;
    /// the bound variables
    pub uninterp spec fn vars(self) -> BinderVars;
    /// chalk-ir: `Binders { binders: self.binders.clone(), value: op(&self.value) }`
    #[verifier::external_body]
    pub fn map_ref<'a, U, OP: FnOnce(&'a T) -> U>(&'a self, op: OP) -> (r: Binders<U>)
        requires op.requires((&self.skip(),)),
        ensures op.ensures((&self.skip(),), r.skip()), r.vars() == self.vars(),
    { unimplemented!() }
    /// chalk-ir: `let value = op(self.value)?; Some(Binders { binders: self.binders, value })`
    #[verifier::external_body]
    pub fn filter_map<U, OP: FnOnce(T) -> Option<U>>(self, op: OP) -> (r: Option<Binders<U>>)
        requires op.requires((self.skip(),)),
        ensures match r {
            Some(b) => op.ensures((self.skip(),), Some(b.skip())) && b.vars() == self.vars(),
            None => op.ensures((self.skip(),), None),
        },
    { unimplemented!() }
    #[verifier::external_body]
    pub fn substitute<I: Interner>(self, interner: I, parameters: &Substitution<I>) -> (r: T)
        ensures r == spec_substitute(self.vars(), self.skip(), *parameters)
    { unimplemented!() }
}

// real definitions (extracted)
//@TYPE file=chalk-solve/src/rust_ir.rs kind=enum name=AdtKind attrs="#[derive(Clone, Copy)]"
//@TYPE file=chalk-solve/src/rust_ir.rs kind=struct name=AdtFlags
//@TYPE file=chalk-solve/src/rust_ir.rs kind=struct name=AdtVariantDatum attrs="#[verifier::reject_recursive_types(I)]"
//@TYPE file=chalk-solve/src/rust_ir.rs kind=struct name=AdtDatumBound attrs="#[verifier::reject_recursive_types(I)]"
//@TYPE file=chalk-solve/src/rust_ir.rs kind=struct name=AdtDatum attrs="#[verifier::reject_recursive_types(I)]"
impl vstd::std_specs::cmp::PartialEqSpecImpl for AdtKind {
    open spec fn obeys_eq_spec() -> bool { true }
    open spec fn eq_spec(&self, other: &Self) -> bool { *self == *other }
}
impl PartialEq for AdtKind { #[verifier::external_body] fn eq(&self, other: &Self) -> bool { unimplemented!() } }

pub trait RustIrDatabase<I: Interner> {
    fn interner(&self) -> I;
    spec fn spec_adt_datum(&self, id: AdtId<I>) -> AdtDatum<I>;
    fn adt_datum(&self, adt_id: AdtId<I>) -> (r: std::sync::Arc<AdtDatum<I>>)
        ensures *r == self.spec_adt_datum(adt_id);
}

// ------------------------------------------------------- specification level
/// the last field of the last variant, if any (field types still under the ADT's binders)
pub open spec fn last_field<I: Interner>(b: AdtDatumBound<I>) -> Option<Ty<I>> {
    if b.variants@.len() == 0 || b.variants@.last().fields@.len() == 0 { None } else { Some(b.variants@.last().fields@.last()) }
}
/// C08: "a struct is Sized exactly when it has no fields or its last field is" — the type that rule conditions on
pub open spec fn spec_last_field_of<I: Interner>(d: AdtDatum<I>, subst: Substitution<I>) -> Option<Ty<I>> {
    if d.kind != AdtKind::Struct { None } else {
        match last_field(d.binders.skip()) {
            Some(f) => Some(spec_substitute(d.binders.vars(), f, subst)),
            None => None,
        }
    }
}

// ------------------------------------------------------------- real function
//@FN file=chalk-solve/src/clauses/builtin_traits.rs fn=last_field_of_struct contract=last_field_of_struct closures=cl_last,cl_id path=builtin_traits::last_field_of_struct

//@CONTRACT last_field_of_struct
    requires
        // invariant of the datum (lowering / rustc): a struct has exactly one variant
        db.spec_adt_datum(id).kind == AdtKind::Struct ==> db.spec_adt_datum(id).binders.skip().variants@.len() == 1,
    ensures r == spec_last_field_of(db.spec_adt_datum(id), *subst),
//@END
//@CONTRACT cl_last
|b: &AdtDatumBound<I>| -> (o: Option<Ty<I>>) ensures b.variants@.len() == 1 ==> o == last_field(*b)
//@END
//@CONTRACT cl_id
|x: Option<Ty<I>>| -> (o: Option<Ty<I>>) ensures o == x
//@END

} // verus!
fn main() {}
