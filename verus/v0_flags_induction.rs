// Unit V0 `flags_induction` — Verus, pure lemma (no extracted code).
// Ties the one-level contract of K4 to the whole-type statement of C26:
// if every node of a finitely-branching tree satisfies
//     flags(node) == local(node) | OR of flags(child) over its children
// (what K4 proves for `TyKind::compute_flags` + `intern_ty`), then the flags of
// the root are the OR of `local` over ALL nodes of the tree — i.e. a flag is set
// iff the corresponding construct occurs anywhere inside the type.
use vstd::prelude::*;
verus! {

pub struct Node {
    pub local: u16,
    pub flags: u16,
    pub kids: Seq<Node>,
}

pub open spec fn or_flags(s: Seq<Node>) -> u16
    decreases s.len(),
{
    if s.len() == 0 { 0u16 } else { s[0].flags | or_flags(s.drop_first()) }
}

pub open spec fn all_local(t: Node) -> u16
    decreases t,
{
    t.local | or_all_local(t.kids)
}

pub open spec fn or_all_local(s: Seq<Node>) -> u16
    decreases s,
{
    if s.len() == 0 { 0u16 } else { all_local(s[0]) | or_all_local(s.drop_first()) }
}

/// the K4 invariant, at every node
pub open spec fn one_level_ok(t: Node) -> bool
    decreases t,
{
    &&& t.flags == t.local | or_flags(t.kids)
    &&& forall|i: int| 0 <= i < t.kids.len() ==> one_level_ok(#[trigger] t.kids[i])
}

pub proof fn lemma_flags_summarize_whole_tree(t: Node)
    requires one_level_ok(t),
    ensures t.flags == all_local(t),
    decreases t,
{
    lemma_kids(t.kids);
}

pub proof fn lemma_kids(s: Seq<Node>)
    requires forall|i: int| 0 <= i < s.len() ==> one_level_ok(#[trigger] s[i]),
    ensures or_flags(s) == or_all_local(s),
    decreases s,
{
    if s.len() > 0 {
        lemma_flags_summarize_whole_tree(s[0]);
        let rest = s.drop_first();
        assert forall|i: int| 0 <= i < rest.len() implies one_level_ok(#[trigger] rest[i]) by {
            assert(rest[i] == s[i + 1]);
        }
        lemma_kids(rest);
    }
}

/// a flag bit is set at the root iff it is set locally at some node (stated for one bit mask)
pub proof fn lemma_bit_set_iff_occurs(t: Node, mask: u16)
    requires one_level_ok(t),
    ensures (t.flags & mask != 0) == (all_local(t) & mask != 0),
{
    lemma_flags_summarize_whole_tree(t);
}

} // verus!
fn main() {}
