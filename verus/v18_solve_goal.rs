// Unit V18 `rec_solve_goal` — Verus.  C05 / C10: the tabling step of the recursive solver.
// `RecursiveContext::solve_goal` (generic in goal type K and answer type V) must
//   (A) answer from the cache without touching anything,
//   (B) when the goal is already in the search graph (a provisional or finished-but-uncached
//       node), return that node's answer AND lower the caller's `minimums` to the node's
//       `links` — whether or not the node is still on the stack.  This is what tells every
//       ancestor that its result relied on a provisional answer, so that it is not moved to
//       the cache prematurely ("a result that relied on a cyclic assumption that later
//       turned out false is never reported or reused"),
//   (C) reject a cycle that mixes inductive and coinductive goals,
//   (D) never RAISE the caller's minimums on any path.
use vstd::prelude::*;
use std::fmt::Debug;
use std::hash::Hash;
verus! {
broadcast use {callback_facts::clone_keeps_behaviour, callback_facts::clone_keeps_callable};

// ---- prelude: the three data structures, abstract, with the contracts solve_goal relies on
#[derive(Clone, Copy)]
pub struct DepthFirstNumber { pub index: usize }
#[derive(Clone, Copy)]
pub struct StackDepth { pub depth: usize }

impl vstd::std_specs::cmp::PartialEqSpecImpl for DepthFirstNumber {
    open spec fn obeys_eq_spec() -> bool { true }
    open spec fn eq_spec(&self, other: &Self) -> bool { self.index == other.index }
}
impl PartialEq for DepthFirstNumber { #[verifier::external_body] fn eq(&self, other: &Self) -> bool { unimplemented!() } }
impl vstd::std_specs::cmp::PartialOrdSpecImpl for DepthFirstNumber {
    open spec fn obeys_partial_cmp_spec() -> bool { true }
    open spec fn partial_cmp_spec(&self, other: &Self) -> Option<core::cmp::Ordering> {
        if self.index < other.index { Some(core::cmp::Ordering::Less) } else if self.index == other.index { Some(core::cmp::Ordering::Equal) } else { Some(core::cmp::Ordering::Greater) }
    }
}
impl PartialOrd for DepthFirstNumber { #[verifier::external_body] fn partial_cmp(&self, other: &Self) -> Option<core::cmp::Ordering> { unimplemented!() } }

//@TYPE file=chalk-recursive/src/fixed_point.rs kind=struct name=Minimums attrs="#[derive(Clone, Copy)]"
impl Minimums {
    pub closed spec fn pos(self) -> usize { self.positive.index }
    /// `self.positive = min(self.positive, minimums.positive)` (std::cmp::min on the derived order of DepthFirstNumber)
    #[verifier::external_body]
    pub fn update_from(&mut self, minimums: Minimums)
        ensures final(self).pos() == if old(self).pos() <= minimums.pos() { old(self).pos() } else { minimums.pos() }
    { unimplemented!() }
}

#[verifier::reject_recursive_types(K)]
#[verifier::reject_recursive_types(V)]
pub struct Node<K, V> { pub goal: K, pub solution: V, pub stack_depth: Option<StackDepth>, pub links: Minimums }

#[verifier::external_body]
#[verifier::reject_recursive_types(K)]
#[verifier::reject_recursive_types(V)]
pub struct SearchGraph<K, V> { _p: core::marker::PhantomData<(K, V)> }
impl<K, V> SearchGraph<K, V> {
    pub uninterp spec fn nodes(&self) -> Seq<Node<K, V>>;
    pub uninterp spec fn spec_lookup(&self, goal: K) -> Option<DepthFirstNumber>;
    /// how many times nodes of this graph were moved to the permanent cache
    pub uninterp spec fn moves(&self) -> nat;
    #[verifier::external_body]
    pub fn lookup(&self, goal: &K) -> (r: Option<DepthFirstNumber>) ensures r == self.spec_lookup(*goal) { unimplemented!() }
    #[verifier::external_body]
    pub fn insert(&mut self, goal: &K, stack_depth: StackDepth, solution: V) -> (r: DepthFirstNumber)
        ensures final(self).moves() == old(self).moves()
    { unimplemented!() }
    #[verifier::external_body]
    pub fn rollback_to(&mut self, dfn: DepthFirstNumber)
        ensures final(self).moves() == old(self).moves()
    { unimplemented!() }
    /// makes the answers of nodes dfn.. permanent (the cache has interior mutability)
    #[verifier::external_body]
    pub fn move_to_cache(&mut self, dfn: DepthFirstNumber, cache: &Cache<K, V>)
        ensures final(self).moves() == old(self).moves() + 1
    { unimplemented!() }
}
impl<K, V> core::ops::Index<DepthFirstNumber> for SearchGraph<K, V> {
    type Output = Node<K, V>;
    #[verifier::external_body]
    fn index(&self, i: DepthFirstNumber) -> (r: &Node<K, V>) ensures *r == self.nodes()[i.index as int] { unimplemented!() }
}
// (no precondition: the real impls index a Vec and panic out of range; in-range is the callers' invariant, not verified here)
impl<K, V> vstd::std_specs::core::IndexSpecImpl<DepthFirstNumber> for SearchGraph<K, V> {
    open spec fn index_req(&self, i: &DepthFirstNumber) -> bool { true }
}
impl<K, V> core::ops::IndexMut<DepthFirstNumber> for SearchGraph<K, V> {
    #[verifier::external_body]
    fn index_mut(&mut self, i: DepthFirstNumber) -> (r: &mut Node<K, V>)
        ensures final(self).moves() == old(self).moves()
    { unimplemented!() }
}

pub struct StackEntry { pub coinductive_goal: bool, pub cycle: bool }
impl StackEntry {
    #[verifier::external_body]
    pub fn flag_cycle(&mut self) { unimplemented!() }
}
#[verifier::external_body]
pub struct Stack { _p: () }
impl Stack {
    pub uninterp spec fn spec_mixed(&self, depth: StackDepth) -> bool;
    /// flagging an entry does not change which cycles are mixed (it only sets the entry's `cycle` bit)
    pub uninterp spec fn same_shape(&self, other: &Stack) -> bool;
    #[verifier::external_body]
    pub fn mixed_inductive_coinductive_cycle_from(&self, depth: StackDepth) -> (r: bool) ensures r == self.spec_mixed(depth) { unimplemented!() }
    #[verifier::external_body]
    pub fn push(&mut self, coinductive_goal: bool) -> StackDepth { unimplemented!() }
    #[verifier::external_body]
    pub fn pop(&mut self, depth: StackDepth) { unimplemented!() }
}
impl core::ops::Index<StackDepth> for Stack {
    type Output = StackEntry;
    #[verifier::external_body]
    fn index(&self, d: StackDepth) -> &StackEntry { unimplemented!() }
}
impl vstd::std_specs::core::IndexSpecImpl<StackDepth> for Stack {
    open spec fn index_req(&self, i: &StackDepth) -> bool { true }
}
impl core::ops::IndexMut<StackDepth> for Stack {
    #[verifier::external_body]
    fn index_mut(&mut self, d: StackDepth) -> (r: &mut StackEntry)
        ensures forall|x: StackDepth| final(self).spec_mixed(x) == old(self).spec_mixed(x)
    { unimplemented!() }
}

#[verifier::external_body]
#[verifier::reject_recursive_types(K)]
#[verifier::reject_recursive_types(V)]
pub struct Cache<K, V> { _p: core::marker::PhantomData<(K, V)> }
impl<K, V> Cache<K, V> {
    pub uninterp spec fn spec_get(&self, goal: K) -> Option<V>;
    #[verifier::external_body]
    pub fn get(&self, goal: &K) -> (r: Option<V>) ensures r == self.spec_get(*goal) { unimplemented!() }
}

//@TYPE file=chalk-recursive/src/fixed_point.rs kind=struct name=RecursiveContext attrs="#[verifier::reject_recursive_types(K)] #[verifier::reject_recursive_types(V)]"

pub trait SolverStuff<K, V>: Copy where K: Hash + Eq + Debug + Clone, V: Debug + Clone {
    spec fn spec_error_value(self) -> V;
    fn is_coinductive_goal(self, goal: &K) -> bool;
    fn initial_value(self, goal: &K, coinductive_goal: bool) -> V;
    fn error_value(self) -> (r: V) ensures r == self.spec_error_value();
}

impl<K, V> RecursiveContext<K, V> where K: Hash + Eq + Debug + Clone, V: Debug + Clone {
    pub closed spec fn graph(self) -> SearchGraph<K, V> { self.search_graph }
    pub closed spec fn stk(self) -> Stack { self.stack }
    pub closed spec fn cached(self, goal: K) -> Option<V> {
        match self.cache { Some(c) => c.spec_get(goal), None => None }
    }

    /// HAVOC: the fixed-point iteration for a new goal (calls back into solve_goal through the solver)
    #[verifier::external_body]
    fn solve_new_subgoal(&mut self, canonical_goal: &K, depth: StackDepth, dfn: DepthFirstNumber, solver_stuff: impl SolverStuff<K, V>, should_continue: impl std::ops::Fn() -> bool + Clone) -> Minimums
        // induction hypothesis of clause (E): the loop reaches the cache only through nested solve_goal calls  //@ONLY V19
        ensures (forall|b: bool| should_continue.ensures((), b) ==> !b) ==> final(self).graph().moves() == old(self).graph().moves(),  //@ONLY V19
    { unimplemented!() }

// ------------------------------------------------------------- real functions
//@FN file=chalk-recursive/src/fixed_point.rs within="^impl<K, V> RecursiveContext<K, V> where" fn=solve_goal contract=solve_goal path=RecursiveContext::solve_goal
}

//@CONTRACT solve_goal
    requires
        // `V::clone` returns an equal value (the derived Clone of the answer type)
        forall|a: V, b: V| call_ensures(V::clone, (&a,), b) ==> a == b,
        // the caller's callback may be called
        should_continue.requires(()),
    ensures
        // (E) C11: while the caller's callback says "stop", answers are provisional (`Ambig(Unknown)`, unit V4):  //@ONLY V19
        //     none of them may be made permanent, or later solves on this solver differ from a fresh solver  //@ONLY V19
        (forall|b: bool| should_continue.ensures((), b) ==> !b) ==> final(self).graph().moves() == old(self).graph().moves(),  //@ONLY V19
        // (D) the caller's minimums never go up
        final(minimums).pos() <= old(minimums).pos(),
        match old(self).cached(*goal) {
            // (A) cache hit: the cached answer, nothing else changes
            Some(v) => r == v && final(minimums).pos() == old(minimums).pos(),
            None => match old(self).graph().spec_lookup(*goal) {
                Some(dfn) => {
                    let node = old(self).graph().nodes()[dfn.index as int];
                    let mixed = node.stack_depth is Some && old(self).stk().spec_mixed(node.stack_depth->Some_0);
                    // (C) mixed inductive/coinductive cycle: rejected
                    &&& mixed ==> r == solver_stuff.spec_error_value()
                    // (B) otherwise: that node's answer, and the dependency on it is recorded — ALWAYS
                    &&& !mixed ==> r == node.solution
                    &&& !mixed ==> final(minimums).pos() == (if old(minimums).pos() <= node.links.pos() { old(minimums).pos() } else { node.links.pos() })
                },
                None => true,
            },
        },
//@END

} // verus!
pub mod callback_facts {
use vstd::prelude::*;
verus! {
/// ASSUMED: cloning the caller's callback gives a callback that behaves the same (the derived / closure `Clone`)
pub broadcast axiom fn clone_keeps_behaviour<F: core::ops::Fn() -> bool + Clone>(f: &F, g: F, b: bool)
    requires #[trigger] call_ensures(F::clone, (f,), g), #[trigger] g.ensures((), b),
    ensures f.ensures((), b);
pub broadcast axiom fn clone_keeps_callable<F: core::ops::Fn() -> bool + Clone>(f: &F, g: F)
    requires #[trigger] call_ensures(F::clone, (f,), g), f.requires(()),
    ensures g.requires(());
}
}
fn main() {}
