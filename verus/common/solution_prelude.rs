// Shared prelude: abstract substitutions/constraints, the real Canonical /
// ConstrainedSubst / Solution / Guidance definitions, and the specification
// functions `trivial`, `guidance_of`, `agreed`, `spec_combine`.
// ------------------------------------------------------------------ prelude
pub trait Interner: Sized + Copy { type DefId: Copy; }
pub trait HasInterner { type Interner: Interner; }

#[verifier::external_body]
#[verifier::reject_recursive_types(I)]
pub struct Substitution<I: Interner> { _p: core::marker::PhantomData<I> }
#[verifier::external_body]
#[verifier::reject_recursive_types(I)]
pub struct Constraints<I: Interner> { _p: core::marker::PhantomData<I> }
#[verifier::external_body]
#[verifier::reject_recursive_types(I)]
pub struct CanonicalVarKinds<I: Interner> { _p: core::marker::PhantomData<I> }

impl<I: Interner> HasInterner for Substitution<I> { type Interner = I; }
impl<I: Interner> HasInterner for ConstrainedSubst<I> { type Interner = I; }

// abstract views of the two predicates `is_trivial_and_always_true` reads
pub uninterp spec fn spec_is_identity_subst<I: Interner>(s: Substitution<I>) -> bool;
pub uninterp spec fn spec_constraints_empty<I: Interner>(c: Constraints<I>) -> bool;

// callee contracts (assumed; chalk-ir, not verified by this unit)
impl<I: Interner> Substitution<I> {
    #[verifier::external_body]
    pub fn is_identity_subst(&self, interner: I) -> (r: bool)
        ensures r == spec_is_identity_subst(*self)
    { unimplemented!() }
}
impl<I: Interner> Constraints<I> {
    #[verifier::external_body]
    pub fn is_empty(&self, interner: I) -> (r: bool)
        ensures r == spec_constraints_empty(*self)
    { unimplemented!() }
    #[verifier::external_body]
    pub fn empty(interner: I) -> (r: Self)
        ensures spec_constraints_empty(r), r == spec_empty_constraints::<I>()
    { unimplemented!() }
}
pub uninterp spec fn spec_empty_constraints<I: Interner>() -> Constraints<I>;

// `#[derive(Clone, PartialEq)]` on the extracted types is dropped by the
// extractor (D1); its meaning is assumed to be: clone returns an equal value,
// `==` is structural equality of the abstract views.
//@CLONE_EQ generics="I: Interner" type="Substitution<I>"
//@CLONE_EQ generics="I: Interner" type="Constraints<I>"
//@CLONE_EQ generics="I: Interner" type="CanonicalVarKinds<I>"
//@CLONE_EQ generics="I: Interner" type="ConstrainedSubst<I>"
//@CLONE_EQ generics="I: Interner" type="Canonical<Substitution<I>>"
//@CLONE_EQ generics="I: Interner" type="Canonical<ConstrainedSubst<I>>"
//@CLONE_EQ generics="I: Interner" type="Guidance<I>"
//@CLONE_EQ generics="I: Interner" type="Solution<I>"

// ------------------------------------------- real type definitions (extracted)
//@TYPE file=chalk-ir/src/lib.rs kind=struct name=Canonical attrs="#[verifier::reject_recursive_types(T)]"
//@TYPE file=chalk-ir/src/lib.rs kind=struct name=ConstrainedSubst attrs="#[verifier::reject_recursive_types(I)]"
//@TYPE file=chalk-solve/src/solve.rs kind=enum name=Solution attrs="#[verifier::reject_recursive_types(I)]"
//@TYPE file=chalk-solve/src/solve.rs kind=enum name=Guidance attrs="#[verifier::reject_recursive_types(I)]"

// ------------------------------------------------------- specification level
pub open spec fn trivial<I: Interner>(s: Solution<I>) -> bool {
    match s {
        Solution::Unique(c) => spec_is_identity_subst(c.value.subst) && spec_constraints_empty(c.value.constraints),
        Solution::Ambig(_) => false,
    }
}

pub open spec fn guidance_of<I: Interner>(s: Solution<I>) -> Guidance<I> {
    match s {
        Solution::Unique(c) => Guidance::Definite(Canonical { value: c.value.subst, binders: c.binders }),
        Solution::Ambig(g) => g,
    }
}

/// What two candidates agree on (documentation of `combine`: "always downgrade
/// to Ambig", keeping only guidance both candidates give).
pub open spec fn agreed<I: Interner>(g1: Guidance<I>, g2: Guidance<I>) -> Guidance<I> {
    match (g1, g2) {
        (Guidance::Definite(s1), Guidance::Definite(s2)) => if s1 == s2 { Guidance::Definite(s1) } else { Guidance::Unknown },
        (Guidance::Suggested(s1), Guidance::Suggested(s2)) => if s1 == s2 { Guidance::Suggested(s1) } else { Guidance::Unknown },
        _ => Guidance::Unknown,
    }
}

pub open spec fn spec_combine<I: Interner>(a: Solution<I>, b: Solution<I>) -> Solution<I> {
    if a == b { a }
    else if trivial(a) { a }
    else if trivial(b) { b }
    else { Solution::Ambig(agreed(guidance_of(a), guidance_of(b))) }
}

/// "never claims more than either candidate" (C17), stated on the result only.
pub open spec fn claims_no_more<I: Interner>(a: Solution<I>, b: Solution<I>, r: Solution<I>) -> bool {
    &&& (a == b ==> r == a)
    &&& (r is Unique ==> (r == a || r == b) && (a == b || trivial(r)))
    &&& (forall|s: Canonical<Substitution<I>>| r == Solution::Ambig(Guidance::Definite(s)) ==>
            guidance_of(a) == Guidance::Definite(s) && guidance_of(b) == Guidance::Definite(s))
    &&& (forall|s: Canonical<Substitution<I>>| r == Solution::Ambig(Guidance::Suggested(s)) ==>
            guidance_of(a) == Guidance::Suggested(s) && guidance_of(b) == Guidance::Suggested(s))
}

